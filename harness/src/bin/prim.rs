//! Length styles and value encodings of zvt_builder called directly (C16, C17).
use zvt_builder::length::{self, Length};
use zvt_verif_harness::*;

fn len_ser_s(style: &str, n: usize) -> String {
    macro_rules! go {
        ($t:ty) => {
            guarded(move || format!("Ok {}", hex(&<$t>::serialize(n))))
        };
    }
    macro_rules! fixed {
        ($($k:literal),*) => {
            match style {
                "Empty" => go!(length::Empty),
                "Tlv" => go!(length::Tlv),
                "Adpu" => go!(length::Adpu),
                "Llv:1" => go!(length::LlvImpl<1>),
                "Llv:2" => go!(length::LlvImpl<2>),
                "Llv:3" => go!(length::LlvImpl<3>),
                "Llv:4" => go!(length::LlvImpl<4>),
                $(concat!("Fixed:", $k) => go!(length::Fixed<$k>),)*
                _ => panic!("unknown style {style}"),
            }
        };
    }
    fixed!(0, 1, 2, 3, 4, 5, 6, 7, 8, 9, 10, 11, 12, 13, 14, 15, 16, 17)
}

fn len_de_s(style: &str, bs: &[u8]) -> String {
    macro_rules! go {
        ($t:ty) => {{
            let bs = bs.to_vec();
            guarded(move || match <$t>::deserialize(&bs) {
                Ok((n, r)) => format!("Ok {} {}", n, hex(r)),
                Err(e) => zerr(&e),
            })
        }};
    }
    macro_rules! fixed {
        ($($k:literal),*) => {
            match style {
                "Empty" => go!(length::Empty),
                "Tlv" => go!(length::Tlv),
                "Adpu" => go!(length::Adpu),
                "Llv:1" => go!(length::LlvImpl<1>),
                "Llv:2" => go!(length::LlvImpl<2>),
                "Llv:3" => go!(length::LlvImpl<3>),
                "Llv:4" => go!(length::LlvImpl<4>),
                $(concat!("Fixed:", $k) => go!(length::Fixed<$k>),)*
                _ => panic!("unknown style {style}"),
            }
        };
    }
    fixed!(0, 1, 2, 3, 4, 5, 6, 7, 8, 9, 10, 11, 12, 13, 14, 15, 16, 17)
}

fn main() {
    silence_panics();
    run_cases(|f, emit| match f[0] {
        // len_ser <style> <n>
        "len_ser" => emit(len_ser_s(f[1], f[2].parse().unwrap())),
        // len_ser_range <style> <from> <to>   (inclusive)
        "len_ser_range" => {
            let (a, b): (usize, usize) = (f[2].parse().unwrap(), f[3].parse().unwrap());
            for n in a..=b {
                emit(len_ser_s(f[1], n));
            }
        }
        // len_de <style> <hex>
        "len_de" => emit(len_de_s(f[1], &unhex(f[2]))),
        // len_de_all <style> <k> <hex suffix>: every k-byte string (k <= 3), in order, followed by suffix
        "len_de_all" => {
            let k: u32 = f[2].parse().unwrap();
            let suffix = unhex(f[3]);
            for i in 0..(1u64 << (8 * k)) {
                let mut bs: Vec<u8> = (0..k).map(|j| (i >> (8 * (k - 1 - j))) as u8).collect();
                bs.extend_from_slice(&suffix);
                emit(len_de_s(f[1], &bs));
            }
        }
        other => panic!("unknown case kind {other}"),
    });
}
