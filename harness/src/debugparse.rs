//! Parses the `{:?}` text of a decoded packet into the canonical value text shared with the
//! OCaml driver:  ints decimal, strings `s:<hex code points joined by .>`, `None`, `Some(v)`,
//! lists `[a;b]`, structs `{a;b}` (positional, field names dropped), dates `d:y,m,d,h,mi,s`.
pub fn canon(debug: &str) -> String {
    let cs: Vec<char> = debug.chars().collect();
    let mut p = P { cs: &cs, i: 0 };
    let v = p.value();
    p.ws();
    assert!(p.i == cs.len(), "trailing debug text at {}: {}", p.i, debug);
    v
}

struct P<'a> {
    cs: &'a [char],
    i: usize,
}

impl<'a> P<'a> {
    fn ws(&mut self) {
        while self.i < self.cs.len() && self.cs[self.i].is_whitespace() {
            self.i += 1;
        }
    }
    fn peek(&self) -> Option<char> {
        self.cs.get(self.i).copied()
    }
    fn eat(&mut self, c: char) {
        self.ws();
        assert!(self.peek() == Some(c), "expected {c} at {}", self.i);
        self.i += 1;
    }
    fn ident(&mut self) -> String {
        let mut s = String::new();
        while let Some(c) = self.peek() {
            if c.is_alphanumeric() || c == '_' {
                s.push(c);
                self.i += 1;
            } else {
                break;
            }
        }
        s
    }
    fn value(&mut self) -> String {
        self.ws();
        match self.peek().expect("value") {
            '"' => self.string(),
            '[' => {
                self.i += 1;
                let mut items = Vec::new();
                loop {
                    self.ws();
                    if self.peek() == Some(']') {
                        self.i += 1;
                        break;
                    }
                    items.push(self.value());
                    self.ws();
                    if self.peek() == Some(',') {
                        self.i += 1;
                    }
                }
                format!("[{}]", items.join(";"))
            }
            c if c.is_ascii_digit() || c == '-' || c == '+' => {
                let mut s = String::new();
                while let Some(c) = self.peek() {
                    if c.is_ascii_alphanumeric() || c == '-' || c == '+' || c == ':' || c == '.' {
                        s.push(c);
                        self.i += 1;
                    } else {
                        break;
                    }
                }
                if let Some(t) = s.find('T') {
                    // chrono: [+-]YYYY-MM-DDTHH:MM:SS[.fff]
                    let (d, tm) = (&s[..t], &s[t + 1..]);
                    let neg = d.starts_with('-');
                    let d2 = d.trim_start_matches(|c| c == '-' || c == '+');
                    let dp: Vec<&str> = d2.split('-').collect();
                    let tp: Vec<&str> = tm.split(|c| c == ':' || c == '.').collect();
                    let y: i64 = dp[0].parse().unwrap();
                    format!(
                        "d:{},{},{},{},{},{}",
                        if neg { -y } else { y },
                        dp[1].parse::<u32>().unwrap(),
                        dp[2].parse::<u32>().unwrap(),
                        tp[0].parse::<u32>().unwrap(),
                        tp[1].parse::<u32>().unwrap(),
                        tp[2].parse::<u32>().unwrap()
                    )
                } else {
                    s
                }
            }
            _ => {
                let id = self.ident();
                assert!(!id.is_empty(), "unexpected char at {}", self.i);
                self.ws();
                match (id.as_str(), self.peek()) {
                    ("None", _) => "None".to_string(),
                    ("Some", Some('(')) => {
                        self.i += 1;
                        let v = self.value();
                        self.eat(')');
                        format!("Some({})", v)
                    }
                    (_, Some('{')) => {
                        self.i += 1;
                        let mut items = Vec::new();
                        loop {
                            self.ws();
                            if self.peek() == Some('}') {
                                self.i += 1;
                                break;
                            }
                            let _name = self.ident();
                            self.eat(':');
                            items.push(self.value());
                            self.ws();
                            if self.peek() == Some(',') {
                                self.i += 1;
                            }
                        }
                        format!("{{{}}}", items.join(";"))
                    }
                    (_, Some('(')) => {
                        // tuple struct / enum variant with one payload: keep name
                        self.i += 1;
                        let v = self.value();
                        self.eat(')');
                        format!("{}({})", id, v)
                    }
                    _ => "{}".to_string(), // `struct X {}` prints as `X`
                }
            }
        }
    }
    fn string(&mut self) -> String {
        self.i += 1;
        let mut cps: Vec<u32> = Vec::new();
        loop {
            let c = self.peek().expect("unterminated string");
            self.i += 1;
            match c {
                '"' => break,
                '\\' => {
                    let e = self.peek().unwrap();
                    self.i += 1;
                    match e {
                        'n' => cps.push(10),
                        'r' => cps.push(13),
                        't' => cps.push(9),
                        '0' => cps.push(0),
                        '\\' => cps.push(92),
                        '"' => cps.push(34),
                        '\'' => cps.push(39),
                        'u' => {
                            self.eat('{');
                            let mut h = String::new();
                            while self.peek() != Some('}') {
                                h.push(self.peek().unwrap());
                                self.i += 1;
                            }
                            self.i += 1;
                            cps.push(u32::from_str_radix(&h, 16).unwrap());
                        }
                        'x' => {
                            let h: String = self.cs[self.i..self.i + 2].iter().collect();
                            self.i += 2;
                            cps.push(u32::from_str_radix(&h, 16).unwrap());
                        }
                        other => panic!("unknown escape \\{other}"),
                    }
                }
                other => cps.push(other as u32),
            }
        }
        if cps.is_empty() {
            "s:-".to_string()
        } else {
            format!("s:{}", cps.iter().map(|c| format!("{:x}", c)).collect::<Vec<_>>().join("."))
        }
    }
}
