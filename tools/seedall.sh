#!/bin/bash
# usage: tools/seedall.sh   -- re-runs every stored seeded change against the quick check of its own property; prints a table.
# Applies each patch to /repo's working tree and undoes it; do not run it while anything else uses /repo.
cd /verif
git -C /repo diff --quiet || { echo "/repo is dirty"; exit 2; }
rm -rf .cache/evidence.bak; cp -r evidence .cache/evidence.bak
for d in seeded/C*/; do
  name=$(basename $d); p=${name:0:3}
  git -C /repo apply /verif/$d/patch.diff 2>/dev/null || { echo "$name: patch does not apply"; continue; }
  out=$(./check $p quick 2>&1 | tail -3)
  if echo "$out" | grep -q "^VIOLATION property=$p"; then
    if echo "$out" | grep -q "no-failing-input-found"; then echo "$name: reported, no failing input"; else echo "$name: caught"; fi
  else echo "$name: MISSED ($(echo "$out" | tail -1 | cut -c1-80))"; fi
  git -C /repo checkout -- .
done
rm -rf evidence; mv .cache/evidence.bak evidence
.cache/target/release/zvt2coq /repo /verif >/dev/null 2>&1
git -C /repo status --short
