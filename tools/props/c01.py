"""C01 — every packet value survives serialise -> deserialise unchanged."""
from .. import vlib, layouts, codec_cases as cc
from ..common import proof_part, report_diffs

TB = ["Coq 8.16.1 kernel; no axioms", "zvt2coq translator (layouts regenerated)", "extraction + ocaml/driver.ml",
      "harness/src/bin/codec.rs + the Debug-text parser it uses to observe decoded values",
      "tools/layouts.py: independent reference encoder + canonical-value generator (DESIGN 5.1)",
      "hand-written model coq/Codec.v", "coq/CanonClass.v: the class for which the round trip is proved (extracted, run on the generated values)"]


def resizable(f):
    return f["ty"]["k"] == "prim" and f["ty"]["p"] == "String" and f["encoding"] == "Default" and \
        f["length"] in ("LEmpty", "LLlv 3", "LTlv") or \
        (f["ty"]["k"] == "opt" and f["ty"]["t"]["k"] == "prim" and f["ty"]["t"]["p"] in ("String", "Bytes")
         and f["encoding"] in ("Default", "Custom") and f["length"] in ("LLlv 3", "LTlv"))


def body_len(s, v):
    return len(layouts.enc_fields(s["fields"], v[1]))


def hit_body_length(rng, s, target):
    """a canonical value of command s whose APDU body has exactly `target` bytes, or None"""
    for _ in range(6):
        v, _b = layouts.gen_struct_value(rng, s, absent_pos=False)   # resizing adds bytes behind positional fields
        for path in find_resizable(s["fields"], []):
            vals = v[1]
            for n in range(0, 1200):
                txt = [0x41 + (k % 26) for k in range(n)]
                set_path(s["fields"], vals, path, txt)
                try:
                    L = body_len(s, v)
                except ValueError:
                    break
                if L == target:
                    return v, layouts.enc_struct(s, v)
                if L > target:
                    break
    return None


def find_resizable(fields, prefix):
    for i, f in enumerate(fields):
        if resizable(f):
            yield prefix + [i]
        t = f["ty"]
        inner = t["t"] if t["k"] == "opt" else t
        if inner["k"] == "struct" and f["length"] in ("LTlv", "LLlv 3"):
            for p in find_resizable(inner["fields"], prefix + [i]):
                yield p


def set_path(fields, vals, path, txt):
    i = path[0]
    f = fields[i]
    t = f["ty"]
    if len(path) == 1:
        inner = t["t"] if t["k"] == "opt" else t
        x = ("b", [c for c in txt] or [1]) if inner.get("p") == "Bytes" else ("s", list(txt))
        vals[i] = ("some", x) if t["k"] == "opt" else x
        return
    inner = t["t"] if t["k"] == "opt" else t
    cur = vals[i]
    if t["k"] == "opt":
        if cur is None:
            cur = ("some", layouts.minimal_value({"fields": inner["fields"]}))
            vals[i] = cur
        rec = cur[1]
    else:
        rec = cur
    set_path(inner["fields"], rec[1], path[1:], txt)


def check(run):
    proof_part(run, "C01")
    L = layouts.load()
    rng, th = run.rng, run.tier == "thorough"
    drv = vlib.ocaml_build()
    codec = vlib.harness_build("harness", ["codec"])["codec"]
    cases, expect = [], []
    vm_pool, vm_cand = [], {}
    sizes = {}
    # corpus first: the captured packets that are canonical must survive decode -> encode
    for name, b in cc.corpus(L):
        cases.append("dec\t%s\t%s" % (name, b.hex())); expect.append(None)
    for line in cc.corpus_cases():
        cases.append(line); expect.append(None)
    per_type = 5000 if th else 300
    boundary = 0
    for s in L["structs"]:
        for k in range(per_type):
            v, b = layouts.gen_struct_value(rng, s, big=(k % 25 == 0))
            cases.append("dec\t%s\t%s" % (s["name"], layouts.hexs(b)))
            expect.append("Ok %s rem=- re=%s" % (layouts.show(v), layouts.hexs(b)))
            if len(b) < 400:
                vm_cand[len(cases) - 1] = (s["name"], list(b), v)
            sizes[len(b) // 64] = sizes.get(len(b) // 64, 0) + 1
        # long repeated fields: 255 / 256 / 257 / 300 / 1000 elements (a count no length field carries)
        for n in (255, 256, 257, 300, 1000):
            for _ in range(3):
                r = layouts.gen_long_vec_value(rng, s, n)
                if r is None:
                    break
                v, b = r
                if len(b) > 65535:
                    continue
                cases.append("dec\t%s\t%s" % (s["name"], layouts.hexs(b)))
                expect.append("Ok %s rem=- re=%s" % (layouts.show(v), layouts.hexs(b)))
                sizes[len(b) // 64] = sizes.get(len(b) // 64, 0) + 1
                break
        if s["control"]:
            for target in (253, 254, 255, 256, 257) + ((65534, 65535) if th else ()):
                r = hit_body_length(rng, s, target) if target < 1500 else None
                if r:
                    v, b = r
                    cases.append("dec\t%s\t%s" % (s["name"], b.hex()))
                    expect.append("Ok %s rem=- re=%s" % (layouts.show(v), b.hex()))
                    boundary += 1
    triples = []
    mo = vlib.run_sharded(drv, cases, run.workdir, "c01_model")
    io = vlib.run_sharded(codec, cases, run.workdir, "c01_impl")
    diffs = []
    for c, m, i, e in zip(cases, mo, io, expect):
        if m != i:
            diffs.append((c, m, i))
        if e is None:
            # corpus entry: if it decodes completely and re-encodes, the re-encoding must decode to the same value
            continue
        if i != e:
            what = "value altered" if i.startswith("Ok ") else "canonical value rejected"
            run.violation(kind="input", case=c, expected=e[:600], observed=i[:600], how_found="oracle",
                          detail="decode(encode v) must be (v, no bytes left) and re-encode to the same bytes: " + what)
        else:
            run.nontrivial.add(hash(c))
    # (only cases on which the extracted model itself met the expectation: a disagreement there is the machinery's)
    vm_pool = [t for k, t in sorted(vm_cand.items()) if mo[k] == expect[k]]
    # the extracted model against Coq's own evaluator on a sample of these cases (trusted base: extraction + driver)
    from .. import vmcheck
    pick = rng.sample(range(len(vm_pool)), min(len(vm_pool), 1500 if th else 240))
    vmcheck.crosscheck(run, [vm_pool[k] for k in pick])
    # how many of the generated canonical values lie inside the class the round-trip theorem is proved for
    # (Properties/C01.v: C01_roundtrip_commands / _containers); the others are covered by model = implementation
    # plus the oracle only
    ccases = ["canon\t" + c.split("\t", 1)[1] for c, e in zip(cases, expect) if e is not None and c.startswith("dec\t")]
    co = vlib.run_sharded(drv, ccases, run.workdir, "c01_canon")
    outside = {}
    for c, r in zip(ccases, co):
        if r != "1":
            t = c.split("\t")[1].split("::")[-1]
            outside[t] = outside.get(t, 0) + 1
    run.coverage["values_in_proved_class"] = "%d of %d" % (sum(1 for r in co if r == "1"), len(co))
    run.coverage["values_outside_proved_class_by_type"] = dict(sorted(outside.items(), key=lambda kv: -kv[1])[:12])
    run.evaluations += len(cases)
    run.coverage["values_per_type"] = per_type
    run.coverage["types"] = len(L["structs"])
    run.coverage["apdu_boundary_cases"] = boundary
    run.coverage["encoded_size_histogram_64B_buckets"] = {str(k * 64): n for k, n in sorted(sizes.items())[:12]}
    run.nontrivial = {str(x) for x in run.nontrivial}
    for k in (len(cc.corpus(L)) + 3, len(cases) // 2, len(cases) - 1):
        run.sample({"case": cases[k][:200], "model": mo[k][:200], "impl": io[k][:200]})
    report_diffs(run, diffs, "coq/Codec.v", "the codec generated by zvt_derive over zvt_builder", "codec")
    vlib.prefer_concrete(run)
    return vlib.finish(run, trusted_base=TB,
                       assumptions=["canonical domain = DESIGN 5.1 as implemented by tools/layouts.py",
                                    "the round-trip theorem covers the (layout, value) pairs of the decidable class `canon` (coverage['values_in_proved_class']); "
                                    "values outside it (EReceiptNo padding, Some(0) under a greedy BCD field, ...) are decided by correspondence + oracle only"])


def replay(path):
    from ..common import impl_only
    return impl_only("harness", "codec", path)
