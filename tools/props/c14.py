"""C14 — a decoded packet depends only on the bytes inside its announced length."""
from .. import vlib, layouts, codec_cases as cc
from ..common import proof_part, report_diffs

TB = ["Coq 8.16.1 kernel; no axioms", "zvt2coq translator (layouts regenerated)", "extraction + ocaml/driver.ml",
      "harness/src/bin/codec.rs", "hand-written model coq/Codec.v of framing"]


def known_tags(fields):
    return {f["tag"] for f in fields if f["tag"] is not None}


def containers(s):
    """(field index) of tagged fields of s whose type (under Option) is a struct/prim behind a delimiting length"""
    out = []
    for i, f in enumerate(s["fields"]):
        if f["tag"] is not None and f["length"] not in ("LEmpty", "LTemperature"):
            out.append(i)
    return out


def deep_paths(fields, vals, prefix=()):
    """paths (tuples of field indices) to present tagged fields behind a delimiting length, at any nesting depth
    (through Options, not through Vecs)"""
    for i, (f, v) in enumerate(zip(fields, vals)):
        if f["tag"] is None or f["length"] in ("LEmpty", "LTemperature"):
            continue
        ty = f["ty"]
        if ty["k"] == "opt":
            if v is None:
                continue
            ty, v = ty["t"], v[1]
        if ty["k"] == "vec" or (ty["k"] == "prim" and ty["p"] == "Bytes" and len(v[1]) == 0):
            continue
        yield prefix + (i,)
        if ty["k"] == "struct":
            for p in deep_paths(ty["fields"], v[1], prefix + (i,)):
                yield p


def enc_path(fields, vals, path, junk):
    """the fields of one container with field path[0] moved to the end of its container (tagged fields may come in any
    order) and, at the innermost level, `junk` placed right behind it INSIDE that container"""
    i = path[0]
    pre = b"".join(layouts.enc_field(f, f["ty"], v) for j, (f, v) in enumerate(zip(fields, vals)) if j != i)
    f, v = fields[i], vals[i]
    if len(path) == 1:
        return pre + layouts.enc_field(f, f["ty"], v) + junk
    ty = f["ty"]
    if ty["k"] == "opt":
        ty, v = ty["t"], v[1]
    inner = enc_path(ty["fields"], v[1], path[1:], junk)
    return pre + layouts.tag_bytes(f["tag"]) + layouts.len_prefix(f["length"], len(inner)) + inner


def tags_along(fields, vals, path):
    ks = set(known_tags(fields))
    if len(path) > 1:
        f, v = fields[path[0]], vals[path[0]]
        ty = f["ty"]
        if ty["k"] == "opt":
            ty, v = ty["t"], v[1]
        ks |= tags_along(ty["fields"], v[1], path[1:])
    return ks


def check(run):
    proof_part(run, "C14")
    L = layouts.load()
    rng, th = run.rng, run.tier == "thorough"
    drv = vlib.ocaml_build()
    codec = vlib.harness_build("harness", ["codec"])["codec"]
    cmds = [s for s in L["structs"] if s["control"]]
    cases, meta = [], []     # meta: (base index or None, suffix hex)
    canonical_bases = set()
    for s in cmds:
        for _ in range(30 if th else 8):
            v, b = layouts.gen_struct_value(rng, s, big=rng.random() < 0.15)
            base = len(cases)
            cases.append("dec\t%s\t%s" % (s["name"], b.hex())); meta.append((None, "", s["name"]))
            canonical_bases.add(cases[-1])
            sufs = ["%02x" % x for x in range(256)]
            other_v, other_b = layouts.gen_struct_value(rng, rng.choice(cmds))
            sufs.append(other_b.hex())
            sufs.append(b.hex())                      # the packet itself again
            for _ in range(6 if th else 3):
                sufs.append(bytes(rng.randrange(256) for _ in range(rng.randrange(2, 65))).hex())
            for suf in sufs:
                cases.append("dec\t%s\t%s%s" % (s["name"], b.hex(), suf)); meta.append((base, suf, s["name"]))
    # nested containers: make one tagged container the last group inside the APDU body, then put foreign
    # bytes (starting with a tag the parent does not know) behind it, inside the parent's frame
    nested = 0
    for s in cmds:
        idxs = containers(s)
        if not idxs:
            continue
        kt = known_tags(s["fields"])
        unknown = [t for t in range(1, 255) if t not in kt and t not in (0x1f, 0xff)]
        for _ in range(10 if th else 3):
            # no absent positional optional: bytes added inside the body would, by the wire format itself, be read as that field (5.1)
            v, b = layouts.gen_struct_value(rng, s, absent_pos=False)
            fi = rng.choice(idxs)
            f = s["fields"][fi]
            if v[1][fi] is None or v[1][fi] == []:
                continue
            groups_before = b"".join(layouts.enc_field(g, g["ty"], x) for j, (g, x) in enumerate(zip(s["fields"], v[1])) if j != fi)
            last = layouts.enc_field(f, f["ty"], v[1][fi])
            body = groups_before + last
            for _ in range(8):
                junk = bytes([rng.choice(unknown)]) + bytes(rng.randrange(256) for _ in range(rng.randrange(0, 12)))
                whole = body + junk
                if len(whole) > 60000:
                    continue
                pkt = bytes(s["control"]) + layouts.len_prefix("LAdpu", len(whole)) + whole
                ref = bytes(s["control"]) + layouts.len_prefix("LAdpu", len(body)) + body
                base = len(cases)
                cases.append("dec\t%s\t%s" % (s["name"], ref.hex())); meta.append((None, "", s["name"]))
                cases.append("dec\t%s\t%s" % (s["name"], pkt.hex())); meta.append((base, junk.hex(), s["name"]))
                nested += 1
    # the same at ANY nesting depth: foreign bytes right behind a field INSIDE its (nested) container, that field moved to
    # the end of the container (round-2 seeded change C14-feig-payload-swallows-siblings)
    deep = 0
    for s in cmds:
        for _ in range(12 if th else 4):
            v, b = layouts.gen_struct_value(rng, s, absent_pos=False)
            paths = [p for p in deep_paths(s["fields"], v[1]) if len(p) >= 2]
            if not paths:
                continue
            for path in rng.sample(paths, min(len(paths), 6 if th else 3)):
                kt = tags_along(s["fields"], v[1], path)
                unknown = [t for t in range(1, 255) if t not in kt and t not in (0x1f, 0xff)]
                junk = bytes([rng.choice(unknown)]) + bytes(rng.randrange(256) for _ in range(rng.randrange(0, 6)))
                try:
                    body, whole = enc_path(s["fields"], v[1], path, b""), enc_path(s["fields"], v[1], path, junk)
                    if len(whole) > 60000:
                        continue
                    ref = bytes(s["control"]) + layouts.len_prefix("LAdpu", len(body)) + body
                    pkt = bytes(s["control"]) + layouts.len_prefix("LAdpu", len(whole)) + whole
                except ValueError:
                    continue
                base = len(cases)
                cases.append("dec\t%s\t%s" % (s["name"], ref.hex())); meta.append((None, "", s["name"]))
                cases.append("dec\t%s\t%s" % (s["name"], pkt.hex())); meta.append((base, junk.hex(), s["name"]))
                deep += 1
    run.coverage["deep_nested_cases"] = deep
    mo = vlib.run_sharded(drv, cases, run.workdir, "c14_model")
    io = vlib.run_sharded(codec, cases, run.workdir, "c14_impl")
    diffs = []
    for c, m, i, (base, suf, name) in zip(cases, mo, io, meta):
        if m.split(" re=")[0] != i.split(" re=")[0]:
            diffs.append((c, m, i))
        if base is None:
            # a canonical packet on its own: nothing of it may be handed back as "remainder" (what would then sit in front of any suffix)
            if i.startswith("Ok ") and " rem=- " not in i + " " and c in canonical_bases:
                run.violation(kind="input", case=c, expected="Ok <value> rem=-", observed=i[:300], how_found="oracle",
                              detail="bytes of the packet itself were handed back as if they followed it")
            continue
        ref = io[base]
        # oracle: same value (or the same error) as without the suffix; remainder = old remainder ++ suffix
        if ref.startswith("Ok "):
            val, rem = ref[3:].split(" rem=")[0], ref.split(" rem=")[1].split(" re=")[0]
            rem = "" if rem == "-" else rem
            want = "Ok %s rem=%s" % (val, (rem + suf) or "-")
            if i.split(" re=")[0] != want:
                run.violation(kind="input", case=c, expected=want[:400], observed=i[:400], how_found="oracle",
                              detail="bytes behind the announced length changed the value or were not handed back untouched "
                                     "(reference: same packet without them: %s)" % cases[base][:200])
            else:
                run.nontrivial.add((name, len(suf)))
        elif ref.split(":")[0] != i.split(":")[0]:
            run.violation(kind="input", case=c, expected=ref[:200], observed=i[:200], how_found="oracle",
                          detail="bytes behind the announced length changed the outcome")
    run.evaluations += len(cases)
    run.coverage["nested_container_cases"] = nested
    run.coverage["suffix_kinds"] = "each single byte 0..255, a valid packet, the packet itself, random 2..64 bytes"
    run.nontrivial = {str(x) for x in run.nontrivial}
    for k in (1, 300, len(cases) - 1):
        run.sample({"case": cases[k][:200], "model": mo[k][:160], "impl": io[k][:160]})
    report_diffs(run, diffs, "coq/Codec.v", "zvt_builder framing / derive", "codec")
    vlib.prefer_concrete(run)
    return vlib.finish(run, trusted_base=TB, assumptions=["64-bit usize"])


def replay(path):
    from ..common import impl_only
    return impl_only("harness", "codec", path)
