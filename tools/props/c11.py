"""C11 — firmware upload sends exactly the requested bytes of the right file."""
import os
import shutil
from .. import vlib, layouts, spec, seq_cases as sc
from ..common import proof_part, report_diffs

TB = ["Coq 8.16.1 kernel; no axioms", "zvt2coq translator (path table, layouts, reply enum regenerated)",
      "coq/spec/Spec.v file-id table (Feig manual 6.13 table 2; marked C: from the crate's docs)",
      "extraction + ocaml/driver.ml", "harness/src/bin/seq.rs driving the real WriteFile::into_stream over real files in a scratch directory",
      "hand-written model coq/Sequence.v (upload_loop); std::fs read_at returning a full block before EOF and sizes < 2^32 are assumed"]


def request(idv, off, mode="ok"):
    inner = b""
    if mode != "noid":
        inner += bytes([0x1d, 1, idv])
    if mode != "nooff":
        inner += bytes([0x1e, 4]) + off.to_bytes(4, "big")
    if mode == "nocontainer":
        body = b""
    elif mode == "nofile":
        body = bytes([0x06, 0])
    else:
        f = bytes([0x2d, len(inner)]) + inner
        body = bytes([0x06, len(f)]) + f
    return bytes([0x04, 0x0c, len(body)]) + body


def build_cases(rng, th, scratch, ndirs, per_dir):
    """upload histories over real files in `scratch`: (implementation cases, model cases, expected traces, descriptions)"""
    L = layouts.load()
    SP = spec.layouts()
    paths = [list(x) for x in spec.upload_file_ids()]     # the SPECIFICATION's [path, id] (not the regenerated table)
    wd_spec = SP["zvt::feig::packets::WriteData"]
    icases, mcases, expect, why = [], [], [], []
    if True:
        for d in range(ndirs):
            # block sizes: small, large, and those that put one of the three nested TLV lengths of the answer (payload 1C, file 2D,
            # container 06) on the 127/128 and 255/256 form switches (round-4 seeded change)
            blocks = [1024, 1, 115, 117, 128, 255, 2, 114, 116, 118, 127, 129, 243, 245, 256, 32768, 242, 244, 246, 113]
            block = blocks[d % len(blocks)] if d < len(blocks) else rng.choice(blocks)
            root = os.path.join(scratch, "d%d" % d)
            os.makedirs(root)
            chosen = rng.sample(paths, rng.choice([0, 1, 1, 2, 3, 5, len(paths)]) if d else 2)
            files = {}
            for p, fid in chosen:
                size = rng.choice([0, 1, max(0, block - 1), block, block + 1, 3 * block + 7, 1000, (200 * 1024 if th else 5000)])
                size = min(size, 300000)
                content = bytes(rng.randrange(256) for _ in range(min(size, 4096))) * (size // 4096 + 1)
                content = content[:size]
                fp = os.path.join(root, p)
                os.makedirs(os.path.dirname(fp), exist_ok=True)
                if rng.random() < 0.25:
                    # a recognised path may be a symbolic link to the real image (a release directory): announced with the
                    # TARGET's size, served with the target's bytes
                    tgt = os.path.join(scratch, "releases_d%d" % d, "img%d.bin" % fid)
                    os.makedirs(os.path.dirname(tgt), exist_ok=True)
                    open(tgt, "wb").write(content)
                    os.symlink(tgt, fp)
                else:
                    open(fp, "wb").write(content)
                files[fid] = content
            for extra in ("readme.txt", "firmware/other.bin", "app9/update.spec"):
                fp = os.path.join(root, extra)
                os.makedirs(os.path.dirname(fp), exist_ok=True)
                open(fp, "wb").write(b"unrelated")
            # unrelated files BELOW a recognised name: that name is then a directory, not one of the recognised files
            absent = [p for p, fid in paths if fid not in files]
            for p in rng.sample(absent, min(len(absent), rng.choice([0, 1, 2]))):
                fp = os.path.join(root, p, "readme.txt")
                os.makedirs(os.path.dirname(fp), exist_ok=True)
                open(fp, "wb").write(b"unrelated")
            ids = sorted(files)
            unknown = [i for i in range(256) if i not in files]
            for _ in range(per_dir):
                pw = rng.choice([0, 123456, 999999])
                steps, fault = [], None
                for _ in range(rng.randrange(0, 7)):
                    if not ids:
                        break
                    fid = rng.choice(ids)
                    sz = len(files[fid])
                    off = rng.choice([0, block, 2 * block, max(0, sz - 1), sz, sz + 5, max(0, sz - block), rng.randrange(0, sz + 2)])
                    steps.append((fid, off))
                r = rng.random()
                if ids and r < 0.35:
                    fault = rng.choice(["unknown", "noid", "nooff", "nofile", "nocontainer"])
                end = rng.choice(["completion", "abort"])
                stream = sc.ACK
                ev = ["W:manifest pw=%d [%s]" % (pw, ";".join("(%d,%d)" % (i, len(files[i])) for i in ids))]
                pending = sc.ACK.hex()
                if not ids:
                    script = stream + bytes([6, 0x0f, 0])
                    exp = "Y:Err left=%d" % len(script)
                else:
                    for fid, off in steps:
                        rq = request(fid, off)
                        stream += rq
                        data = files[fid][off:off + block]
                        v = ("rec", [("some", ("rec", [("some", ("rec", [("some", fid), ("some", off), None, ("some", ("b", list(data)))]))]))])
                        pkt = layouts.enc_struct(wd_spec, v)
                        ev += ["R:" + pending + rq.hex(), "W:" + pkt.hex(),
                               "Y:1" + layouts.show(("rec", [("some", ("rec", [("some", ("rec", [("some", fid), ("some", off), None, None]))]))]))]
                        pending = ""
                    left = 0
                    if fault:
                        rq = request(rng.choice(unknown) if fault == "unknown" else ids[0], 0, fault if fault != "unknown" else "ok")
                        junk = bytes([6, 0x0f, 0])
                        stream += rq + junk
                        ev += ["R:" + pending + rq.hex(), "Y:Err"]
                        left = len(junk)
                    else:
                        fin = bytes([6, 0x0f, 0]) if end == "completion" else bytes([6, 0x1e, 1, 0x6c])
                        stream += fin + b"\x99"
                        ev += ["R:" + pending + fin.hex(), "W:800000", "Y:0{None;None;None;None}" if end == "completion" else "Y:2{108}"]
                        left = 1
                    script = stream
                    exp = " ".join(ev) + " left=%d" % left
                icases.append("upload\t%s\t%d\t%d\t%s" % (root, block, pw, script.hex()))
                mcases.append("uploadm\t%s\t%d\t%d\t%s" % (",".join("%d:%s" % (i, files[i].hex() or "-") for i in ids) or "-", block, pw, script.hex()))
                expect.append(exp); why.append("block %d, files %s, requests %s, %s" % (block, [(i, len(files[i])) for i in ids], steps, fault or end))
    return icases, mcases, expect, why


def check(run):
    proof_part(run, "C11")
    L = layouts.load()
    rng, th = run.rng, run.tier == "thorough"
    drv = vlib.ocaml_build()
    seqb = vlib.harness_build("harness", ["seq"])["seq"]
    paths = [list(x) for x in spec.upload_file_ids()]
    scratch = "/tmp/zvt_verif_c11_%d" % os.getpid()
    shutil.rmtree(scratch, ignore_errors=True)
    os.makedirs(scratch)
    try:
        ndirs = 60 if th else 20
        icases, mcases, expect, why = build_cases(rng, th, scratch, ndirs, 80 if th else 30)
        try:
            mo = vlib.run_sharded(drv, mcases, run.workdir, "c11_model")
            io = vlib.run_sharded(seqb, icases, run.workdir, "c11_impl")
        except vlib.HangFound as h:
            run.violation(kind="history", case=h.case[:2000], expected="the upload ends", observed="Hang", how_found="oracle")
            return vlib.finish(run, trusted_base=TB)
    finally:
        shutil.rmtree(scratch, ignore_errors=True)
    diffs, n_bad = [], 0
    for c, mc, m, i, e, w in zip(icases, mcases, mo, io, expect, why):
        if m != i:
            diffs.append((mc[:3000], m[:1500], i[:1500]))
        if i != e:
            n_bad += 1
            if n_bad <= 5:
                run.violation(kind="history", case=mc[:4000000], expected=e[:400000], observed=i[:400000], how_found="oracle",
                              detail="upload: " + w + " — announced list = recognised files present with true sizes; each request answered with that id, that offset and "
                                     "exactly the file's bytes up to the block size or end of file; unknown id / missing field ends with an error and no data")
        else:
            run.nontrivial.add(hash(mc))
    run.evaluations += len(icases)
    run.coverage["directories"] = ndirs
    run.coverage["recognised_paths_in_table"] = len(paths)
    run.nontrivial = {str(x) for x in run.nontrivial}
    for k in (0, len(icases) // 2, len(icases) - 1):
        run.sample({"why": why[k][:300], "model": mo[k][:300], "impl": io[k][:300]})
    report_diffs(run, diffs, "coq/Sequence.v (upload_loop)", "WriteFile::into_stream", "seq")
    vlib.prefer_concrete(run)
    return vlib.finish(run, trusted_base=TB, assumptions=["file sizes < 2^32", "read_at returns a full block before end of file (regular files)",
                                                           "the manifest is compared as a set (the source iterates a HashMap)"])


def replay(path):
    """re-creates the payload directory of the recorded history in a scratch directory and re-runs
    the real WriteFile::into_stream on it"""
    import json
    r = json.load(open(path))
    L = layouts.load()
    f = r["case"].split("\t")
    id2path = {i: p for p, i in spec.upload_file_ids()}
    scratch = "/tmp/zvt_verif_c11_replay_%d" % os.getpid()
    shutil.rmtree(scratch, ignore_errors=True)
    os.makedirs(scratch)
    try:
        if f[1] != "-":
            for item in f[1].split(","):
                i, c = item.split(":")
                fp = os.path.join(scratch, id2path[int(i)])
                os.makedirs(os.path.dirname(fp), exist_ok=True)
                open(fp, "wb").write(b"" if c == "-" else bytes.fromhex(c))
        seqb = vlib.harness_build("harness", ["seq"])["seq"]
        wd = os.path.join(vlib.CACHE, "run", "replay")
        os.makedirs(wd, exist_ok=True)
        vlib.write_lines(os.path.join(wd, "case"), ["upload\t%s\t%s\t%s\t%s" % (scratch, f[2], f[3], f[4])])
        vlib.run_prog(seqb, os.path.join(wd, "case"), os.path.join(wd, "out"))
        obs = vlib.read_lines(os.path.join(wd, "out"))[0]
    finally:
        shutil.rmtree(scratch, ignore_errors=True)
    print("expected:", r["expected"][:1500])
    print("observed:", obs[:1500])
    exp = r["expected"]
    ok = obs == exp or (len(exp) >= 400000 and obs.startswith(exp))    # the recorded expectation may be cut at its length limit
    print("NOT REPRODUCED (implementation now meets the expectation)" if ok else "REPRODUCED")
    return 0 if ok else 1
