"""C12 — the derive macro implements the declared layout for any user-defined struct."""
import json
from .. import vlib, layouts, derive_gen
from ..common import proof_part, report_diffs

TB = ["Coq 8.16.1 kernel; no axioms", "extraction + ocaml/driver.ml (layouts parsed at run time: the model is generic in the layout)",
      "tools/derive_gen.py program generator; rustc + the REAL #[derive(Zvt)] macro compile the programs",
      "zvt2coq --scan is run over the generated Rust and must reproduce the generator's tables (test of the translator)",
      "tools/layouts.py reference encoder = 'the layout the attributes describe'", "hand-written model coq/Codec.v of the derive scheme"]


def strip(fields):
    def ty(t):
        if t["k"] == "struct":
            return {"k": "struct", "fields": strip(t["fields"])}
        if t["k"] in ("opt", "vec"):
            return {"k": t["k"], "t": ty(t["t"])}
        return {"k": "prim", "p": t["p"]}
    return [{"name": f["name"], "tag": f["tag"], "length": f["length"], "encoding": f["encoding"], "ty": ty(f["ty"])} for f in fields]


def check(run):
    proof_part(run, "C12")
    rng, th = run.rng, run.tier == "thorough"
    drv = vlib.ocaml_build()
    vlib.harness_build("harness", ["codec"])
    rounds = 6 if th else 1
    total_structs = 0
    diffs = []
    shapes = {}
    in_class = [0, 0]
    for rd in range(rounds):
        g = derive_gen.Gen(rng)
        for d in (0,) * 14 + (1,) * 14 + (2,) * 12 + (3,) * 8:
            g.struct(d, wf=True)
        for d in (0,) * 6 + (1,) * 6 + (2,) * 4:
            g.struct(d, wf=False)
        binary, tj = derive_gen.build(g, "r%d" % rd)
        if binary is None:
            # a generated program the real macro / rustc rejects: report which, do not guess
            raise vlib.MachineryError("a generated derive_gen program does not compile:\n" + tj[-3000:])
        total_structs += len(g.structs)
        T = {s["name"]: s for s in tj["structs"]}
        for s in g.structs:
            t = T.get(s["name"])
            if t is None or strip(t["fields"]) != strip(s["fields"]) or t["control"] != s["control"]:
                raise vlib.MachineryError("translator and generator disagree on %s:\n%s\n%s" % (s["name"], json.dumps(t)[:800], json.dumps(strip(s["fields"]))[:800]))
        icases, mcases, expect = [], [], []
        for s in g.structs:
            cf = "-" if s["control"] is None else "%d,%d" % tuple(s["control"])
            toks = derive_gen.layout_tokens(s["fields"])
            for f in s["fields"]:
                key = "%s/%s/%s" % (f["length"].split()[0], f["encoding"], f["ty"]["k"] + ("+tag" if f["tag"] is not None else ""))
                shapes[key] = shapes.get(key, 0) + 1
            vals = []
            for k in range(40 if th else 25):
                try:
                    v, b = layouts.gen_struct_value(rng, s, big=(k % 10 == 0))
                except Exception:
                    break
                vals.append((v, b))
                icases.append("dec\t%s\t%s" % (s["name"], layouts.hexs(b)))
                mcases.append("ldec\t%s\t%s\t%s" % (cf, toks, layouts.hexs(b)))
                expect.append(("Ok %s rem=- re=%s" % (layouts.show(v), layouts.hexs(b))) if s["wf"] else None)
            for v, b in vals[:12]:
                for _ in range(3):
                    m = layouts.mutate(rng, b)
                    icases.append("dec\t%s\t%s" % (s["name"], layouts.hexs(m)))
                    mcases.append("ldec\t%s\t%s\t%s" % (cf, toks, layouts.hexs(m)))
                    expect.append(None)
        try:
            mo = vlib.run_sharded(drv, mcases, run.workdir, "c12_model%d" % rd)
            io = vlib.run_sharded(binary, icases, run.workdir, "c12_impl%d" % rd)
        except vlib.HangFound as h:
            run.violation(kind="program", case=h.case[:2000], expected="a value or an error", observed="Hang (10 s watchdog) in a generated decoder",
                          how_found="oracle", program=g.rust()[:6000])
            continue
        # membership of the generated (layout, value) pairs in the class the inverse theorem is proved for
        ccases = ["lcanon\t" + mc.split("\t", 1)[1] for mc, e in zip(mcases, expect) if e is not None]
        co = vlib.run_sharded(drv, ccases, run.workdir, "c12_canon%d" % rd)
        in_class[0] += sum(1 for r in co if r == "1")
        in_class[1] += len(co)
        src = g.rust()
        for ic, mc, m, i, e in zip(icases, mcases, mo, io, expect):
            if m != i:
                diffs.append((mc[:3000], m[:1200], i[:1200]))
            if e is not None and i != e:
                name = ic.split("\t")[1]
                at = src.index("pub struct %s {" % name.split("::")[-1])
                sdef = src[src.rfind("#[derive", 0, at):src.index("\n}\n", at) + 3]
                run.violation(kind="program", case=mc[:3000], expected=e[:1200], observed=i[:1200], how_found="oracle",
                              program=sdef[-1500:], detail="generated serialiser / deserialiser of a user-defined struct must implement exactly the declared layout and be inverse to each other")
            elif e is not None:
                run.nontrivial.add(hash(mc))
        run.evaluations += len(icases)
        if rd == 0:
            for k in (0, len(icases) // 2, len(icases) - 1):
                run.sample({"model_case": mcases[k][:300], "model": mo[k][:200], "impl": io[k][:200]})
            run.coverage["sample_program"] = src[:1200]
    run.coverage["programs"] = total_structs
    run.coverage["wf_values_in_proved_class"] = "%d of %d" % tuple(in_class)
    run.coverage["field_shape_histogram"] = dict(sorted(shapes.items(), key=lambda kv: -kv[1])[:40])
    run.nontrivial = {str(x) for x in run.nontrivial}
    report_diffs(run, diffs, "coq/Codec.v (dec / enc for an arbitrary layout)", "the code #[derive(Zvt)] generated for a random struct", "derive_gen")
    vlib.prefer_concrete(run)
    return vlib.finish(run, trusted_base=TB,
                       assumptions=["macro hygiene (fields named like macro-internal variables) is outside the attribute grammar (observation O3)",
                                    "well-formed = DESIGN 5.2 as implemented by the generator; programs outside it are only compared model vs implementation"])


def replay(path):
    import json as _j
    r = _j.load(open(path))
    print("program:\n" + r.get("program", "")[:3000])
    print("case (model form): " + r["case"][:500])
    print("expected: " + r["expected"][:600])
    print("observed: " + r["observed"][:600])
    return 1
