"""C04 — packets are read from a byte stream exactly at APDU boundaries."""
import itertools
from .. import vlib, layouts
from ..common import proof_part, report_diffs

TB = ["Coq 8.16.1 kernel; no axioms", "extraction + ocaml/driver.ml",
      "harness/src/bin/transport.rs: the real PacketTransport over an instrumented AsyncRead (chunks, Pending wake-ups, EOF / silent end)",
      "hand-written model coq/Transport.v of zvt/src/io.rs; tokio's read_exact contract (poll until n bytes, UnexpectedEof) is modelled, "
      "sampled by the correspondence run"]


def header(n):
    return bytes([n]) if n < 255 else bytes([0xff, n & 255, n >> 8])


def partitions(n):
    """all compositions of n (cut points between bytes)"""
    for mask in range(1 << (n - 1)) if n > 0 else [0]:
        cuts, start = [], 0
        for i in range(1, n):
            if mask >> (i - 1) & 1:
                cuts.append((start, i)); start = i
        cuts.append((start, n))
        yield cuts


def chunk_text(stream, cuts, pend_mode, rng):
    parts = []
    for k, (a, b) in enumerate(cuts):
        if k > 0:
            if pend_mode == "all" or (pend_mode == "rand" and rng.random() < 0.5):
                parts.append("P")
            if pend_mode == "rand" and rng.random() < 0.1:
                parts.append("P")
        if b > a:
            parts.append(stream[a:b].hex())
    return ",".join(parts) or "-"


def check(run):
    proof_part(run, "C04")
    L = layouts.load()
    rng, th = run.rng, run.tier == "thorough"
    drv = vlib.ocaml_build()
    tr = vlib.harness_build("harness", ["transport"])["transport"]
    cmds = [s for s in L["structs"] if s["control"]]
    cases, expect = [], []

    def add(stream, cuts, pend, eof, k, frames):
        cases.append("read\t%s\t%s\t%d" % (chunk_text(stream, cuts, pend, rng), "eof" if eof else "open", k))
        # oracle: the frames in order with cumulative consumption; then Err (eof) / Blocked (open) if k exceeds them
        out, pos = [], 0
        for f in frames[:k]:
            pos += len(f)
            out.append("Ok %s consumed=%d" % (f.hex(), pos))
        if k > len(frames):
            out.append("Err" if eof else "Blocked")
        expect.append(" | ".join(out))

    # (1) header agreement through the real writer, every body length
    if th:
        # every body length 0..65535; the cost grows with the length, so the ranges are dealt round-robin over the shards
        rs = [(a, min(a + 255, 65535)) for a in range(0, 65536, 256)]
        wr_cases = ["wr_range\t%d\t%d" % r for i in range(vlib.NPROC) for r in rs[i::vlib.NPROC]]
    else:
        cases.append("wr_range\t0\t1024"); expect.append(None)
        for a, b in ((4090, 4100), (32760, 32775), (65280, 65290), (65520, 65535)):
            cases.append("wr_range\t%d\t%d" % (a, b)); expect.append(None)
    # (2) every partition of short streams (<= 12 bytes), Pending between all chunks and at random
    short = []
    for _ in range(12 if th else 5):
        fs = []
        while sum(len(f) for f in fs) < 7:
            n = rng.choice([0, 0, 1, 2, 3])
            fs.append(bytes([rng.randrange(256), rng.randrange(256)]) + header(n) + bytes(rng.randrange(256) for _ in range(n)))
        if sum(len(f) for f in fs) <= 12:
            short.append(fs)
    short.append([bytes([6, 0x1e, 1, 0x6c]), bytes([0x80, 0, 0]), bytes([4, 0xff, 2, 1, 0x17])])
    for fs in short:
        stream = b"".join(fs)
        for cuts in partitions(len(stream)):
            add(stream, cuts, "all", True, len(fs) + 1, fs)
            if rng.random() < 0.25:
                add(stream, cuts, "rand", False, len(fs) + 1, fs)
            if rng.random() < 0.1:
                add(stream, cuts, "none", True, len(fs), fs)
    # (3) sequences of 1-5 real packets of all types, random partitions, 254/255/256 and extended bodies
    for _ in range(3000 if th else 500):
        fs = []
        for _ in range(rng.randrange(1, 6)):
            if rng.random() < 0.15:
                n = rng.choice([253, 254, 255, 256, 257, 300, 1000])
                fs.append(bytes([6, 0xd1]) + header(n) + bytes(rng.randrange(256) for _ in range(n)))
            else:
                v, b = layouts.gen_struct_value(rng, rng.choice(cmds))
                fs.append(b)
        stream = b"".join(fs)
        ncuts = rng.choice([0, 1, 2, 5, 20])
        pts = sorted(set(rng.randrange(1, len(stream)) for _ in range(ncuts))) if len(stream) > 1 else []
        cuts = list(zip([0] + pts, pts + [len(stream)]))
        add(stream, cuts, rng.choice(["all", "rand", "none"]), rng.random() < 0.7, len(fs) + rng.choice([0, 1]), fs)
    # (4) the stream ends inside a packet: every end position
    for _ in range(60 if th else 15):
        v, b = layouts.gen_struct_value(rng, rng.choice(cmds))
        pre = [bytes([0x80, 0, 0])] if rng.random() < 0.5 else []
        for cut in range(len(b)):
            stream = b"".join(pre) + b[:cut]
            for eof in (True, False):
                add(stream, [(0, len(stream))] if stream else [], "none", eof, len(pre) + 1, pre)
    mo = vlib.run_sharded(drv, cases, run.workdir, "c04_model")
    io = vlib.run_sharded(tr, cases, run.workdir, "c04_impl")
    if th:
        mo += vlib.run_sharded(drv, wr_cases, run.workdir, "c04_wr_model")
        io += vlib.run_sharded(tr, wr_cases, run.workdir, "c04_wr_impl")
        cases += wr_cases
        expect += [None] * len(wr_cases)
    if len(mo) != len(io):
        raise vlib.MachineryError("model printed %d results, implementation %d" % (len(mo), len(io)))
    # expand expectation list to output lines (wr_range yields many lines)
    exp_lines, case_lines = [], []
    for c, e in zip(cases, expect):
        f = c.split("\t")
        if f[0] == "wr_range":
            for n in range(int(f[1]), int(f[2]) + 1):
                total = n + (3 if n < 255 else 5)
                hdr = (bytes([0x80, 0, 0]) if n == 0 else bytes([6, 0xd1]) + header(n) + (b"A" + b"B" * (n - 1)))[:5].hex()
                exp_lines.append(("wr", n, total, hdr)); case_lines.append("wr_range\t%d\t%d" % (n, n))
        else:
            exp_lines.append(e); case_lines.append(c)
    diffs = []
    for c, m, i, e in zip(case_lines, mo, io, exp_lines):
        if m != i:
            diffs.append((c, m, i))
        if isinstance(e, tuple):
            _, n, total, hdr = e
            good = i.startswith("wrote=%d hdr=%s Ok " % (total, hdr)) and i.endswith("consumed=%d" % total)
            if not good:
                run.violation(kind="input", case=c, expected="writer emits header %s for a %d-byte body and the reader consumes exactly %d bytes" % (hdr, n, total),
                              observed=i[:200], how_found="oracle")
            else:
                run.nontrivial.add(("wr", n))
        elif i != e:
            run.violation(kind="schedule", case=c[:3000], expected=e[:600], observed=i[:600], how_found="oracle",
                          detail="k packets in order, each read consuming exactly header + announced body; a stream ending inside a packet is an error, never a packet")
        else:
            run.nontrivial.add(hash(c))
    run.evaluations += len(mo)
    run.coverage["header_lengths_exhaustive"] = bool(th)
    run.coverage["partitions_of_short_streams"] = "all compositions of streams up to 12 bytes"
    run.nontrivial = {str(x) for x in run.nontrivial}
    for k in (5, len(mo) // 2, len(mo) - 1):
        run.sample({"case": case_lines[k][:200], "model": mo[k][:160], "impl": io[k][:160]})
    report_diffs(run, diffs, "coq/Transport.v", "PacketTransport::read_packet / write_packet (zvt/src/io.rs)", "transport")
    vlib.prefer_concrete(run)
    return vlib.finish(run, trusted_base=TB, assumptions=["tokio read_exact has the modelled contract (partial: sampled, not proved)",
                                                           "an in-memory AsyncRead stands for the TCP socket"])


def replay(path):
    from ..common import impl_only
    return impl_only("harness", "transport", path)
