"""C05 — command sequences acknowledge every packet once and stop at the final packet."""
from .. import vlib, layouts, spec, seq_cases as sc
from ..common import proof_part, report_diffs

TB = ["Coq 8.16.1 kernel; no axioms",
      "zvt2coq translator: per impl Sequence the input, reply enum, recognised shape of into_stream and its final variants",
      "coq/spec/Spec.v exchanges table (reply sets, final packets): hand transcription of ZVT ch. 2 / Feig manual",
      "extraction + ocaml/driver.ml", "harness/src/bin/seq.rs: every real into_stream against a scripted in-memory peer logging writes, reads, items",
      "hand-written model coq/Sequence.v of the try_stream! bodies (yield / ? semantics of async-stream are modelled)"]


def build_cases(run, L, depth):
    rng = run.rng
    cases, expect, meta = [], [], []
    for s in L["sequences"]:
        q = sc.Seq(L, s)
        if q.spec is None:
            continue
        nv = len(q.variants)
        scripts = list(sc.all_scripts(nv, depth))
        if len(scripts) > 1600:
            scripts = scripts[:400] + rng.sample(scripts[400:], 1200)
        for t in scripts:
            cmd = q.gen_input(rng)
            replies = [q.gen_reply(rng, k) for k in t]
            cut = next((j for j, k in enumerate(t) if q.is_final(k)), None)
            junk = bytes(rng.randrange(256) for _ in range(rng.choice([0, 0, 1, 3, 7])))
            if rng.random() < 0.3:
                junk = sc.ACK + bytes([6, 0x0f, 0]) + junk           # a following exchange already queued
            stream = sc.ACK + b"".join(f for f, _ in replies) + junk
            if cut is not None:
                rest = b"".join(f for f, _ in replies[cut + 1:]) + junk
                e = sc.expected_trace(cmd, sc.ACK, replies[:cut + 1], None, rest)
            else:
                # no final packet in the script: everything is consumed, then the read at the end fails
                if junk:
                    continue
                e = sc.expected_trace(cmd, sc.ACK, replies, ("eof",), b"")
            cases.append("seq\t%s\t%s\t%s" % (q.name, cmd.hex(), stream.hex()))
            expect.append(e); meta.append((q.short, t))
        # long random scripts (depth 30)
        nonfinal = [k for k in range(nv) if not q.is_final(k)]
        final = [k for k in range(nv) if q.is_final(k)]
        for _ in range(20):
            if not nonfinal or not final:
                break
            t = tuple(rng.choice(nonfinal) for _ in range(rng.randrange(5, 31))) + (rng.choice(final),)
            cmd = q.gen_input(rng)
            replies = [q.gen_reply(rng, k) for k in t]
            junk = bytes(rng.randrange(256) for _ in range(5))
            cases.append("seq\t%s\t%s\t%s" % (q.name, cmd.hex(), (sc.ACK + b"".join(f for f, _ in replies) + junk).hex()))
            expect.append(sc.expected_trace(cmd, sc.ACK, replies, None, junk)); meta.append((q.short, t))
    return cases, expect, meta


def check(run):
    proof_part(run, "C05")
    L = layouts.load()
    th = run.tier == "thorough"
    drv = vlib.ocaml_build()
    seqb = vlib.harness_build("harness", ["seq"])["seq"]
    cases, expect, meta = build_cases(run, L, 5 if th else 4)
    try:
        mo = vlib.run_sharded(drv, cases, run.workdir, "c05_model")
        io = vlib.run_sharded(seqb, cases, run.workdir, "c05_impl")
    except vlib.HangFound as h:
        run.violation(kind="script", case=h.case[:3000], expected="the stream ends after the final packet", observed="Hang (20 s watchdog)", how_found="oracle")
        return vlib.finish(run, trusted_base=TB)
    diffs = []
    seen = set()
    for c, m, i, e, (short, t) in zip(cases, mo, io, expect, meta):
        if m != i:
            diffs.append((c[:3000], m[:1500], i[:1500]))
        if i != e:
            key = (short, len(t))
            if key not in seen:
                seen.add(key)
                run.violation(kind="script", case=c[:3000], expected=e[:1500], observed=i[:1500], how_found="oracle",
                              detail="sequence %s, reply script %s: command once, acknowledgement awaited, every reply read / acknowledged once / yielded in order, "
                                     "stop right after the first final packet (per the specification table), nothing read beyond it" % (short, list(t)))
        else:
            run.nontrivial.add((short, t))
    # the firmware upload: every data request answered exactly once with the requested block (also an EMPTY block at / behind the
    # end of the file) before the next packet is read, the final packet acknowledged, nothing read beyond it (round-4 seeded change)
    import os
    import shutil
    from . import c11
    scratch = "/tmp/zvt_verif_c05_%d" % os.getpid()
    shutil.rmtree(scratch, ignore_errors=True)
    os.makedirs(scratch)
    try:
        ic, mc, ex, why = c11.build_cases(run.rng, th, scratch, 8 if th else 4, 40 if th else 20)
        try:
            umo = vlib.run_sharded(drv, mc, run.workdir, "c05_upload_model")
            uio = vlib.run_sharded(seqb, ic, run.workdir, "c05_upload_impl")
        except vlib.HangFound as h:
            run.violation(kind="script", case=h.case[:3000], expected="the upload ends after its final packet", observed="Hang (20 s watchdog)", how_found="oracle")
            return vlib.finish(run, trusted_base=TB)
    finally:
        shutil.rmtree(scratch, ignore_errors=True)
    nb = 0
    for c, m, i, e, w in zip(mc, umo, uio, ex, why):
        if m != i:
            diffs.append((c[:3000], m[:1500], i[:1500]))
        if i != e:
            nb += 1
            if nb <= 3:
                run.violation(kind="script", case=c[:400000], expected=e[:400000], observed=i[:400000], how_found="oracle",
                              detail="firmware upload (%s): every data request answered exactly once with the requested block before the next packet is read" % w)
        else:
            run.nontrivial.add(("upload", hash(c)))
    run.evaluations += len(cases) + len(ic)
    run.coverage["upload_histories"] = len(ic)
    run.coverage["sequences"] = len({m[0] for m in meta})
    run.coverage["script_depth_exhaustive"] = 5 if th else 4
    run.nontrivial = {str(x) for x in run.nontrivial}
    for k in (0, len(cases) // 2, len(cases) - 1):
        run.sample({"case": cases[k][:300], "model": mo[k][:300], "impl": io[k][:300]})
    report_diffs(run, diffs, "coq/Sequence.v", "the into_stream implementations (zvt/src/sequences.rs, zvt/src/feig/sequences.rs)", "seq")
    vlib.prefer_concrete(run)
    return vlib.finish(run, trusted_base=TB, assumptions=["async-stream's try_stream! semantics (effects before each yield; `?` yields one Err and ends)",
                                                           "an in-memory peer stands for the TCP socket", "the firmware upload's content (manifest, file ids, block contents) is C11's; here its acknowledgement discipline"])


def replay(path):
    import json
    if json.load(open(path)).get("case", "").startswith("uploadm"):
        from . import c11
        return c11.replay(path)          # re-creates the payload directory and re-runs the real upload
    from ..common import impl_only
    return impl_only("harness", "seq", path)
