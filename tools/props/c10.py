"""C10 — no terminal stall or configuration value can hang a client call."""
from .. import vlib, client_cases as cc
from ..common import proof_part, report_diffs
from .c07 import TB, run_scenarios
from .c09 import histories


def check(run):
    proof_part(run, "C10")
    rng, th = run.rng, run.tier == "thorough"
    S = cc.Spec()
    scs, meta = [], []
    # (1) a stall at every packet position of every exchange of every operation (handshake of the reconnect included)
    for h in histories(S, rng):
        for j, e in enumerate(h.exchanges):
            for pos in range(0, len(e.replies) + 1):
                sc = h.build((j, pos, "silence"))
                scs.append(sc); meta.append(("stall", h, j, pos))
                # ... and the stream ENDING there: inside a packet (header and part of the body arrived) or on a packet boundary
                for kind in ("truncated", "close"):
                    scs.append(h.build((j, pos, kind))); meta.append(("stall-" + kind, h, j, pos))
    # (1b) a packet arriving exactly at / just before / just after its deadline, at every position (the boundary of the
    #      timeout computation); (1c) several stalls in one history, stalls inside reconnect handshakes included
    hs_all = histories(S, rng)
    for h in hs_all:
        for j, e in enumerate(h.exchanges):
            for pos in range(0, len(e.replies) + 1):
                if not th and rng.random() > 0.25:
                    continue
                for d in (e.timeout - 1, e.timeout, e.timeout + 1):
                    scs.append(h.build_multi([(j, pos, "late:%d" % d)])); meta.append(("late", h, j, pos))
        for _ in range(400 if th else 5):
            nf = rng.choice([2, 3, 4, 5])
            faults = sorted(((rng.randrange(len(h.exchanges)), rng.randrange(0, 4), "silence") for _ in range(nf)), key=lambda f: f[0])
            hs = [((rng.randrange(2), rng.randrange(2), "silence") if rng.random() < 0.4 else None) for _ in range(nf + 3)]
            scs.append(h.build_multi(faults, hs)); meta.append(("multi-stall", h, nf, 0))
    # stall during the FIRST handshake (connect, registration, identity check) and in a reconnect's handshake
    for cut in range(0, 5):
        h = cc.History(S); h.read_card()
        sc = h.build()
        full = sc.conns[0]
        sc.conns = [full[:cut]] + [list(full)]
        sc.ends = ["S", "S"]
        sc.exp_results = [None]
        sc.exp_writes = []
        scs.append(sc); meta.append(("handshake-stall", h, 0, cut))
    # silence ON CONNECT: the connection attempt itself is never answered (neither accepted nor refused) — at the very first
    # connection (Feig::new), at a reconnect after a stall, several times in a row, mixed with refusals, and for the whole budget
    for pattern in (["silent"], ["silent", "silent"], ["silent", "refused", "silent"], ["refused", "silent"], ["silent"] * 5, ["silent"] * 25,
                    ["silent"] * 19, ["silent"] * 20, ["silent"] * 21):
        for where in ("first", "reconnect"):
            for opname in ("read_card", "begin", "configure"):
                sc = cc.Scenario(S, {"rct": rng.choice([0, 1, 15, 255])})
                if where == "first":
                    sc.conns, sc.ends = [], []
                    for k in pattern:
                        sc.conns.append(k); sc.ends.append("S")
                    sc.conns.append([]); sc.ends.append("S")
                    sc.handshake()
                    sc.exchange(S.sysinfo_req(), [S.abort(0x6c)])
                else:
                    sc.start()
                    # the operation's request is written and never answered; then the attempts of the pattern; then a good terminal
                    for k in pattern:
                        sc.new_conn(refused=(k == "refused"), silent=(k == "silent"))
                    sc.new_conn(); sc.handshake()
                c = sc.cfg
                if opname == "read_card":
                    sc.ops.append("read_card")
                    sc.exchange(S.read_card_req(c["rct"]), [S.status_info({0x27: 0, 0x06: {"uuid": "04a1b2c3"}})])
                elif opname == "begin":
                    sc.ops.append("begin:" + "tok".encode().hex())
                    sc.exchange(S.reservation(c["cur"], c["amount"], "tok"), [S.status_info({0x27: 0, 0x87: 17}), S.completion()])
                else:
                    sc.ops.append("configure")
                    sc.exchange(S.sysinfo_req(), [S.abort(0x6c)])
                sc.ops.append("read_card")
                sc.exchange(S.read_card_req(c["rct"]), [S.status_info({0x27: 0, 0x06: {"uuid": "04a1b2c3"}})])
                sc.exp_results = [None, None]
                sc.exp_writes = []
                h = cc.History(S, {"rct": c["rct"]}); h.read_card()
                scs.append(sc); meta.append(("connect-stall", h, len(pattern), 0))
    # the WHOLE retry budget of every exchange of every operation: the peer closes at the start of exchange j and no terminal is
    # reachable any more (19 further attempts, all refused) — the operation must return IncompleteData, not hang, not succeed
    for h in hs_all:
        for j, e in enumerate(h.exchanges):
            sc = h.build((j, 0, "close"))
            keep = sc.fault_conn + 1
            sc.conns, sc.ends = sc.conns[:keep], sc.ends[:keep]
            sc.ends[-1] = "C"
            sc.exp_results = [None] * len(sc.ops)
            sc.exp_writes = []
            scs.append(sc); meta.append(("budget", h, j, e.op))
    # (2) every configuration value of read_card_timeout, with a terminal that never answers the command
    for t in (range(256) if th else list(range(0, 256, 5)) + [1, 2, 253, 254, 255]):
        h = cc.History(S, {"rct": t}); h.read_card()
        sc = h.build((0, 0, "silence"))
        scs.append(sc); meta.append(("rct", h, t, 0))
        # all connections refused afterwards: the whole retry budget is spent
        sc2 = cc.Scenario(S, {"rct": t}).start()
        sc2.ops.append("read_card"); sc2.expect_write(S.read_card_req(t)); sc2.exp_results.append("Err:Zvt:IncompleteData")
        scs.append(sc2); meta.append(("rct-budget", h, t, 0))
    # (3) other configuration extremes: terminal id (equal to / different from the terminal's, empty => "00000000", not a number),
    #     maximum 0, amount 0 / 10^12 - 1, currency 0 / 999, password 0 / 999999 — with a healthy terminal and with one that
    #     falls silent in the middle of configure(); model = implementation, every call returns
    for cfg in ({"tid": "52523535"}, {"tid": "00000001"}, {"tid": ""}, {"tid": "12AB5678"}, {"tid": "99999999"}, {"max": 0}, {"amount": 0},
                {"amount": 10 ** 12 - 1}, {"cur": 0}, {"cur": 999}, {"pw": 0}, {"pw": 999999}, {"rct": 0, "max": 3}):
        for stall in (None, 1, 3):
            sc = cc.Scenario(S, cfg).start()
            c = sc.cfg
            tid_cfg = c["tid"] or "00000000"
            term_tid = "52523535"
            # configure(): system info; set terminal id when they differ (and the configured one is a number); initialisation; clean-up
            sc.ops.append("configure")
            steps = [(S.sysinfo_req(), [S.sysinfo(c["serial"], term_tid)])]
            numeric = tid_cfg.isdigit()
            if tid_cfg != term_tid and numeric:
                steps.append((S.set_terminal_id(c["pw"], int(tid_cfg)), [S.completion()]))
            if tid_cfg == term_tid or numeric:
                steps.append((S.initialization(c["pw"]), [S.intermediate(), S.completion()]))
                steps.append((S.pending_query(), [S.pr_abort(0xb8, 0xFFFF)]))
                steps.append((S.end_of_day(c["pw"]), [S.completion()]))
            for n, (req, reps) in enumerate(steps):
                if stall is not None and n == stall:
                    sc.expect_write(req); sc.new_conn(end_prev="S"); sc.handshake()
                sc.exchange(req, reps)
            sc.exp_results = [None]
            sc.ops.append("read_card")
            sc.exchange(S.read_card_req(c["rct"]), [S.status_info({0x27: 0, 0x06: {"uuid": "04a1b2c3"}})])
            sc.exp_results.append(None)
            sc.exp_writes = []
            scs.append(sc); meta.append(("config", cc.History(S, cfg), 0, 0))
    # (4) configuration values BEYOND what their field on the wire can carry: Feig::new refuses them with an error (no client, no
    #     call, no panic); a terminal id of nine or more digits is an error of configure(), every later call still returns
    for cfg in ({"pw": 10 ** 6}, {"pw": 2 ** 64 - 1}, {"cur": 10 ** 4}, {"cur": 2 ** 63}, {"amount": 10 ** 12}, {"amount": 2 ** 64 - 1},
                {"pw": 10 ** 6, "cur": 978, "amount": 1}):
        sc = cc.Scenario(S, cfg)
        sc.ops.append("read_card")
        sc.exp_results = []
        sc.exp_writes = []
        scs.append(sc); meta.append(("config-refused", cc.History(S, cfg), 0, 0))
    for tid in ("123456789", "100000000", "99999999999999999", "18446744073709551615"):
        sc = cc.Scenario(S, {"tid": tid})
        sc.handshake()
        sc.exchange(S.sysinfo_req(), [S.sysinfo(sc.cfg["serial"], "52523535")])      # Feig::new's configure(): the id differs and is too long
        sc.ops.append("configure")
        sc.exchange(S.sysinfo_req(), [S.sysinfo(sc.cfg["serial"], "52523535")])
        sc.ops.append("read_card")
        sc.exchange(S.read_card_req(sc.cfg["rct"]), [S.status_info({0x27: 0, 0x06: {"uuid": "04a1b2c3"}})])
        sc.exp_results = ["Err:Msg:The_terminal_id_has_more_than_eight_digits", "Ok:Member:04A1B2C3"]
        sc.exp_writes = []
        scs.append(sc); meta.append(("config-tid", cc.History(S, {"tid": tid}), 0, 0))
    cases, mo, io = run_scenarios(run, scs, "c10")
    diffs = []
    for (kind, h, a, b), sc, c, m, i in zip(meta, scs, cases, mo, io):
        if m != i:
            diffs.append((c[:3000], m[:1500], i[:1500]))
        if kind == "config-refused":
            if i != "new:Err:Msg:Configuration_value_out_of_range":
                run.violation(kind="fault_sequence", case=c[:3000], expected="Feig::new returns an error for a configuration value its field cannot carry",
                              observed=i[:1500], how_found="oracle", detail="configuration extreme")
            else:
                run.nontrivial.add(hash(c))
            continue
        p = cc.parse_output(i)
        if kind == "config-tid" and p is not None:
            got = [r[0] for r in p[0][1:]]
            if got != sc.exp_results:
                run.violation(kind="fault_sequence", case=c[:3000], expected="results " + ";".join(sc.exp_results), observed=i[:1500], how_found="oracle",
                              detail="a terminal id of more than eight digits is an error of configure(), not a panic")
        if p is None or "Hang" in i or "Panic" in i:
            run.violation(kind="fault_sequence", case=c[:3000], expected="every operation returns (a result or an error) within its retry budget",
                          observed=i[:1500], how_found="oracle", detail="%s at exchange/position %s/%s" % (kind, a, b))
            continue
        res, ev, T = p
        ok = True
        for k, (text, t0, dt) in enumerate(res[1:]):
            # bound fixed by the retry budget and the per-packet timeout: per exchange 20 attempts x (2 s throttle + connect timeout + packet timeout)
            n_ex = max(1, sum(1 for e in h.exchanges if e.op == k))
            tmo = max((e.timeout for e in h.exchanges if e.op == k), default=60000)
            if kind == "connect-stall":
                n_ex, tmo = 6, 60000       # the bound of the theorem for ANY public operation (6 exchanges at most, 60 s packets)
            bound = n_ex * 20 * (2000 + 2 * tmo) + 60000
            if dt > bound:
                ok = False
                run.violation(kind="fault_sequence", case=c[:3000], expected="operation %d returns within %d ms (virtual)" % (k, bound),
                              observed="%s after %d ms" % (text, dt), how_found="oracle")
        if kind == "budget" and len(res) > 1 + b and not res[1 + b][0].startswith("Err:"):
            ok = False
            run.violation(kind="fault_sequence", case=c[:3000], expected="operation %d fails once the retry budget of its exchange %d is spent (no terminal reachable)" % (b, a),
                          observed=res[1 + b][0], how_found="oracle")
        if kind == "rct-budget":
            # exactly: 1 attempt timing out after (t+2) s on the good connection, then 19 refused attempts 2 s apart
            exp = (a + 2) * 1000 + (19 * 2000 if (a + 2) * 1000 <= 2000 else (a + 2) * 1000 - 0 + 0) if False else None
        if ok:
            run.nontrivial.add(hash(c))
    run.evaluations += len(cases)
    run.coverage["read_card_timeout_values"] = "0..255 exhaustively" if th else "every 5th value + extremes"
    run.nontrivial = {str(x) for x in run.nontrivial}
    k = next(k for k, m in enumerate(meta) if m[0] == "rct" and m[2] == 255)
    run.sample({"case": cases[k][:300], "impl": io[k][:400]})
    run.sample({"case": cases[0][:300], "impl": io[0][:400]})
    report_diffs(run, diffs, "coq/Client.v (virtual time)", "zvt_feig_terminal::stream under tokio's paused clock", "client")
    vlib.prefer_concrete(run)
    return vlib.finish(run, trusted_base=TB, assumptions=["partial: tokio timers / paused clock; OS-level connect and write back-pressure are not in the model",
                                                           "virtual elapsed times of the real client equal the model's to the millisecond (compared)"])


def replay(path):
    from ..common import impl_only
    return impl_only("harness_client", "zvt_verif_harness_client", path)
