"""C16 — every length-prefix style is an exact, shortest-form bijection on its range."""
import json
from .. import vlib
from ..common import proof_part, compare_outputs, impl_only

TB = ["Coq 8.16.1 kernel (coqc, full .vo build); no axioms (Print Assumptions: closed under the global context)",
      "extraction (ExtrOcamlBasic only) + ocaml/driver.ml + zarith for printing",
      "harness/src/bin/prim.rs calling zvt_builder::length::* built from /repo's working tree",
      "hand-written model coq/Length.v tied to zvt_builder/src/length.rs by exhaustive differential runs"]

STYLES_RANGE = {"Tlv": 65535, "Adpu": 65535, "Llv:2": 99, "Llv:3": 999}


def expected_prefix_len(style, n):
    if style == "Tlv":
        return 1 if n < 128 else 2 if n < 256 else 3
    if style == "Adpu":
        return 1 if n < 255 else 3
    return int(style.split(":")[1])


def gen_cases(run):
    cases = []
    thorough = run.tier == "thorough"
    cases.append("len_ser_range\tTlv\t0\t65600")
    cases.append("len_ser_range\tAdpu\t0\t65600")
    cases.append("len_ser_range\tLlv:2\t0\t130")
    cases.append("len_ser_range\tLlv:3\t0\t1100")
    cases.append("len_ser_range\tLlv:1\t0\t12")
    cases.append("len_ser_range\tLlv:4\t9990\t10010")
    for k in range(0, 18):
        cases.append("len_ser_range\tFixed:%d\t0\t%d" % (k, k + 1))
    cases.append("len_ser_range\tEmpty\t0\t3")
    for style in ["Tlv", "Adpu", "Llv:2", "Llv:3", "Llv:1", "Empty", "Fixed:0", "Fixed:1", "Fixed:2", "Fixed:3", "Fixed:17"]:
        for suffix in ["-", "a55a"]:
            for k in ([0, 1, 2, 3] if thorough else [0, 1, 2]):
                if k == 3 and suffix != "-" and style not in ("Tlv", "Adpu"):
                    continue
                cases.append("len_de_all\t%s\t%d\t%s" % (style, k, suffix))
    return cases


def expand(case):
    f = case.split("\t")
    if f[0] == "len_ser_range":
        for n in range(int(f[2]), int(f[3]) + 1):
            yield "len_ser\t%s\t%d" % (f[1], n)
    elif f[0] == "len_de_all":
        k = int(f[2])
        suf = "" if f[3] == "-" else f[3]
        for i in range(1 << (8 * k)):
            h = ("%0*x" % (2 * k, i) if k else "") + suf
            yield "len_de\t%s\t%s" % (f[1], h or "-")
    else:
        yield case


def oracle(run, prim):
    """Model-free: the property itself evaluated on the implementation."""
    # phase 1: serialise every representable length
    ser_cases, index = [], []
    for style, top in STYLES_RANGE.items():
        for n in range(top + 1):
            ser_cases.append("len_ser\t%s\t%d" % (style, n))
            index.append((style, n))
    for k in range(1, 18):
        for n in range(k + 1):
            ser_cases.append("len_ser\tFixed:%d\t%d" % (k, n))
            index.append(("Fixed:%d" % k, n))
    outs = vlib.run_sharded(prim, ser_cases, run.workdir, "orc_ser")
    assert len(outs) == len(ser_cases)
    seen = {}
    de_cases, de_expect = [], []
    suffixes = ["", "00", "ff8182"]
    for (style, n), o in zip(index, outs):
        case = "len_ser\t%s\t%d" % (style, n)
        if not o.startswith("Ok "):
            run.violation(kind="input", case=case, expected="Ok <prefix>", observed=o, how_found="oracle",
                          detail="a representable length must serialise")
            continue
        p = "" if o[3:] == "-" else o[3:]
        if style.startswith("Fixed"):
            k = int(style.split(":")[1])
            if p != "00" * (k - n):
                run.violation(kind="input", case=case, expected="Ok " + ("00" * (k - n) or "-"), observed=o,
                              how_found="oracle", detail="Fixed<N> left-pads with N-len zero bytes")
            # reader: exactly k bytes, whole input handed back, shorter input is an error
            payload = "5a" * n
            whole = p + payload + "c3"
            de_cases.append("len_de\t%s\t%s" % (style, whole)); de_expect.append("Ok %d %s" % (k, whole))
            short = (p + payload)[:-2]
            de_cases.append("len_de\t%s\t%s" % (style, short or "-")); de_expect.append("Err")
            continue
        if len(p) // 2 != expected_prefix_len(style, n):
            run.violation(kind="input", case=case, expected="%d prefix bytes" % expected_prefix_len(style, n),
                          observed=o, how_found="oracle", detail="shortest form / switch points")
        if (style, p) in seen:
            run.violation(kind="input", case=case, expected="injective", observed="same prefix as n=%d" % seen[(style, p)],
                          how_found="oracle")
        seen[(style, p)] = n
        for s in suffixes:
            de_cases.append("len_de\t%s\t%s" % (style, p + s)); de_expect.append("Ok %d %s" % (n, s or "-"))
        if n in (0, 1, 2, 9, 10, 99, 127, 128, 254, 255, 256, 300, 999, 1000, 4096, 65535):
            # data longer than the announced length: the parser must not look at how much follows
            for extra in (1, 9, 700):
                data = "5a" * (n + extra)
                de_cases.append("len_de\t%s\t%s" % (style, p + data)); de_expect.append("Ok %d %s" % (n, data))
        for cut in range(0, len(p) // 2):
            de_cases.append("len_de\t%s\t%s" % (style, p[:2 * cut] or "-")); de_expect.append("Err")
    outs2 = vlib.run_sharded(prim, de_cases, run.workdir, "orc_de")
    assert len(outs2) == len(de_cases)
    for c, e, o in zip(de_cases, de_expect, outs2):
        good = o.startswith("Err ") if e == "Err" else o == e
        if not good:
            run.violation(kind="input", case=c, expected=e, observed=o, how_found="oracle",
                          detail="parse(prefix ++ data) = (n, data); truncated prefix is an error")
    run.evaluations += len(ser_cases) + len(de_cases)
    run.coverage["oracle_cases"] = len(ser_cases) + len(de_cases)
    run.coverage["exhaustive"] = True
    run.sample({"oracle": de_cases[70000], "expected": de_expect[70000], "observed": outs2[70000]})


def check(run):
    pr = proof_part(run, "C16")
    drv = vlib.ocaml_build()
    bins = vlib.harness_build("harness", ["prim"])
    cases = gen_cases(run)
    n, diffs = compare_outputs(run, drv, bins["prim"], cases, expand, tag="x")
    run.coverage["correspondence_cases"] = n
    run.coverage["correspondence_disagreements"] = len(diffs)
    for c, m, i in diffs[:50]:
        # is the disagreement a failure of the property on the implementation?  the oracle decides below;
        # a disagreement the oracle cannot turn into a failing input is reported as such
        run.violation(kind="input", case=c, expected=m, observed=i, how_found="correspondence",
                      no_failing_input_found=True,
                      detail="model coq/Length.v and zvt_builder::length disagree; correspondence `prim` no longer checks")
    oracle(run, bins["prim"])
    # if the oracle found concrete failures, they supersede the no-failing-input reports
    vlib.prefer_concrete(run)
    return vlib.finish(run, trusted_base=TB,
                       assumptions=["64-bit usize", "model of length.rs is hand-written; tie = exhaustive differential run"])


def replay(path):
    return impl_only("harness", "prim", path)
