"""C18 — card identity is a fixed function of the data the terminal reports."""
from .. import vlib, layouts, spec, client_cases as cc
from ..common import proof_part, report_diffs
from .c07 import TB, run_scenarios, judge


def check(run):
    proof_part(run, "C18")
    rng, th = run.rng, run.tier == "thorough"
    S = cc.Spec()
    known = spec.result_codes()          # the specification's table, not the code's
    scs = []

    def scenario(replies, expect, finding_class=None):
        sc = cc.Scenario(S).start()
        sc.ops.append("read_card")
        sc.exchange(S.read_card_req(sc.cfg["rct"]), replies)
        sc.exp_results.append(expect)
        sc.finding_class = finding_class
        scs.append(sc)

    for n_inter in (0, 1, 3):
        pre = [S.intermediate(rng.randrange(256)) for _ in range(n_inter)]
        # UID absent / 0..20 bytes of any value; no application listed -> membership id in canonical form
        for n in range(0, 21):
            # every length x every length of an all-zero prefix (the 000000 rule and the 14-digit cut are
            # about exactly these), the rest non-zero bytes with letters in both nibbles
            for z in sorted({0, 1, 2, 3, 4, max(0, n - 7), max(0, n - 4), max(0, n - 1), n}):
                if z > n:
                    continue
                uid = "00" * z + "".join("%02x" % rng.choice([0xab, 0xff, 0x1c, 0xa7, 0x2f, rng.randrange(1, 256)]) for _ in range(n - z))
                scenario(pre + [S.status_info({0x27: 0, 0x06: {"uuid": uid}})], "Ok:Member:" + (cc.canon_uid(uid) or ""))
            for _ in range(3 if th else 1):
                uid = "".join("%02x" % rng.randrange(256) for _ in range(n))
                scenario(pre + [S.status_info({0x27: 0, 0x06: {"uuid": uid}})], "Ok:Member:" + (cc.canon_uid(uid) or ""))
        scenario(pre + [S.status_info({0x27: 0, 0x06: {}})], "Err:Zvt:IncompleteData")            # container without UID
        scenario(pre + [S.status_info({0x27: 0})], "Err:Zvt:IncompleteData")                        # no container at all
        # application list: entries with and without application ids, in every order.  The property's reading: a payment
        # application listed anywhere => Bank (whatever the UID); none listed => the UID as membership id, an error without a UID
        for subs in ([(b"\x00\x05", b"\xa0\x00\x00\x00\x04\x10\x10")],
                     [(None, b"\xa0\x00\x00\x00\x03")],
                     [(b"\x00\x05", b"\xa0\x00"), (None, None)],
                     [(None, None), (b"\x00\x05", b"\xa0\x00")],
                     [(b"\x00\x05", None), (None, None), (None, b"\xa0\x00\x00\x00\x04")],
                     [(b"\x00\x05", None)],
                     [(None, None)],
                     [(b"\x00\x05", None), (b"\x00\x06", None)]):
            listed = any(app is not None for _, app in subs)
            for uid in (None, "04a1b2c3d4e5f6", "000000000000081ca72f"):
                if listed:
                    exp, fc = "Ok:Bank", None
                elif uid is None:
                    exp, fc = "~Err:", None                   # an error (which one is not the property's business)
                else:
                    # KNOWN FINDING (open): the code answers "unknown card type" for a list none of whose entries names an application
                    exp, fc = "Ok:Member:" + cc.canon_uid(uid), "application-list-without-application-id-with-uid"
                scenario(pre + [S.status_info({0x27: 0, 0x06: {"uuid": uid, "subs": subs}})], exp, fc)
    # the application list as real terminals send it (the crate's own trace status_information_read_card.blob): under tag 0x62
    # ("applications on card"), with or without top-level entries.  A payment application listed THERE makes it a bank card too.
    for n_inter in (0, 2):
        pre = [S.intermediate(rng.randrange(256)) for _ in range(n_inter)]
        giro = (b"\x00\x05", bytes.fromhex("a0000003591010028001"))
        maestro = (b"\x00\x2e", bytes.fromhex("a0000000043060"))
        for on_card, subs in (([giro, maestro], []), ([maestro], []), ([(b"\x00\x05", None), maestro], []), ([giro], [(b"\x00\x05", None)]),
                              ([(None, None), giro], []),
                              # both places at once: the two lists COMPLEMENT each other (an id in either one => bank card), also when the
                              # container under 0x62 is present but empty or names no application
                              ([], [giro]), ([(b"\x00\x05", None)], [giro]), ([(None, None)], [maestro, (None, None)]), ([giro], [maestro]),
                              ([], [(None, None), maestro])):
            for uid in (None, "00000000000008b3c880", "04a1b2c3d4e5f6"):
                scenario(pre + [S.status_info({0x27: 0, 0x06: {"uuid": uid, "subs": subs, "on_card": on_card}})], "Ok:Bank")
    # a terminal answers only when ITS time is up (read_card_timeout seconds) or a card shows up at the last moment: the final reply
    # arrives late but inside the client's patience of read_card_timeout + 2 s — for the extremes of the configuration too
    for rct in (0, 1, 15, 59, 60, 61, 100, 253, 254, 255):
        for late in (rct * 1000, (rct + 2) * 1000 - 1):
            for reply, exp in ((S.abort(0x6c), "Err:NoCard"),
                               (S.status_info({0x27: 0, 0x06: {"uuid": "081ca72f"}}), "Ok:Member:081CA72F"),
                               (S.status_info({0x27: 0, 0x06: {"uuid": "04a1b2c3", "subs": [(b"\x00\x05", b"\xa0\x00\x00\x00\x04\x10\x10")]}}), "Ok:Bank")):
                sc = cc.Scenario(S, {"rct": rct}).start()
                sc.ops.append("read_card")
                sc.expect_write(S.read_card_req(rct)); sc.feed(cc.ACK); sc.feed(reply, delay=late); sc.expect_write(cc.ACK)
                sc.exp_results.append(exp)
                sc.finding_class = None
                scs.append(sc)
    # all abort codes: time-out = no card, any other abort an error
    for c in range(256):
        if c == 0x6c:
            exp = "Err:NoCard"
        elif c in known:
            exp = "Err:Msg:" + "".join(ch if ch.isalnum() and ch.isascii() or ch in "-_.:()/=," else "_" for ch in "Unhandled error: " + known[c])
        else:
            exp = "Err:Msg:Unknown_error_code:_0x%X" % c
        scenario([S.intermediate()] * rng.choice([0, 1, 2]) + [S.abort(c)], exp)
    cases, mo, io = run_scenarios(run, scs, "c18")
    diffs = judge(run, scs, cases, mo, io,
                  "a card with a listed payment application is a bank card, never a membership card; otherwise the UID in canonical upper-case form "
                  "(last 14 digits, leading 000000 dropped); time-out = no card; any other abort an error")
    run.nontrivial = {str(x) for x in run.nontrivial}
    run.sample({"case": cases[5][:400], "impl": io[5][:300]})
    report_diffs(run, diffs, "coq/Client.v (h_read_card)", "Feig::read_card", "client")
    vlib.prefer_concrete(run)
    return vlib.finish(run, trusted_base=TB, assumptions=["UIDs are hex text (ASCII) as the codec produces them",
                                                           "open known finding: an application list none of whose entries names an application, with a UID reported, is answered with an error instead of the UID as membership id (known_findings.json)"])


def replay(path):
    from ..common import impl_only
    return impl_only("harness_client", "zvt_verif_harness_client", path)
