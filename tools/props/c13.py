"""C13 — tagged fields: any order accepted, duplicates and missing fields reported."""
import itertools
from .. import vlib, layouts, codec_cases as cc
from ..common import proof_part, report_diffs

TB = ["Coq 8.16.1 kernel; no axioms", "zvt2coq translator (layouts regenerated)", "extraction + ocaml/driver.ml",
      "harness/src/bin/codec.rs", "hand-written model coq/Codec.v of the derive macro's tag loop"]


def frame(s, body):
    if s["control"] is None:
        return body
    return bytes(s["control"]) + layouts.len_prefix("LAdpu", len(body)) + body


def split_groups(s, v):
    """positional prefix bytes, and one encoded group per PRESENT tagged field: [(field index, bytes)]"""
    pos, groups = b"", []
    for j, (f, x) in enumerate(zip(s["fields"], v[1])):
        b = layouts.enc_field(f, f["ty"], x)
        if f["tag"] is None:
            pos += b
        elif b:
            groups.append((j, b))
    return pos, groups


def required(s):
    return sorted({f["tag"] for f in s["fields"] if f["tag"] is not None and f["ty"]["k"] not in ("opt", "vec")})


def check(run):
    proof_part(run, "C13")
    L = layouts.load()
    rng, th = run.rng, run.tier == "thorough"
    drv = vlib.ocaml_build()
    codec = vlib.harness_build("harness", ["codec"])["codec"]
    cases, expect, why = [], [], []

    def add(s, body, exp, reason):
        b = frame(s, body)
        if len(body) > 65000:
            return
        cases.append("dec\t%s\t%s" % (s["name"], layouts.hexs(b))); expect.append(exp); why.append(reason)

    stats = {"perm": 0, "dup": 0, "missing": 0, "foreign": 0}
    for s in L["structs"]:
        tagged = [f for f in s["fields"] if f["tag"] is not None]
        if not tagged:
            continue
        kt = {f["tag"] for f in tagged}
        unk1 = [t for t in range(0, 255) if t not in kt and t not in (0x1f, 0xff)]
        unk2 = [t for t in (0x1f01, 0x1f7e, 0x1fff, 0xff02, 0xff7f) if t not in kt]
        for _ in range(60 if th else 16):
            v, _b = layouts.gen_struct_value(rng, s)
            pos, groups = split_groups(s, v)
            val = layouts.show(v)
            ok = "Ok %s rem=-" % val
            n = len(groups)
            # (1) permutations: exhaustive up to 6 present groups (720), sampled above
            if n <= (6 if th else 5):
                perms = list(itertools.permutations(range(n)))
            else:
                perms = [tuple(rng.sample(range(n), n)) for _ in range(200 if th else 60)]
            for p in perms:
                # a Vec field's elements are one group; two Vec groups never interleave
                body = pos + b"".join(groups[k][1] for k in p)
                add(s, body, ok, "permutation of the tagged groups")
                stats["perm"] += 1
            # an ABSENT positional optional is only representable while fewer bytes follow than that field
            # needs (DESIGN 5.1): adding bytes to such a packet changes, by the wire format itself, how the
            # positional part is read, so duplicate / foreign-tag cases are built on the other values only
            absent_pos = any(f["tag"] is None and f["ty"]["k"] == "opt" and x is None for f, x in zip(s["fields"], v[1]))
            # (2) duplicates: a second copy of group g at every later position (non adjacent for Vec fields)
            for gi, (j, gb) in enumerate(groups if not absent_pos else []):
                isvec = s["fields"][j]["ty"]["k"] == "vec"
                for at in range(n + 1):
                    if isvec and at in (gi, gi + 1):
                        continue
                    seq = [g[1] for g in groups]
                    seq.insert(at, gb)
                    add(s, pos + b"".join(seq), "Err DuplicateTag:%d" % s["fields"][j]["tag"], "duplicate of tag 0x%x" % s["fields"][j]["tag"])
                    stats["dup"] += 1
            # (3) missing mandatory fields: every non-empty subset (size <= 3) removed -> all of them named
            req = required(s)
            for k in range(1, min(3, len(req)) + 1):
                for sub in itertools.combinations(req, k):
                    keep = [g[1] for g in groups if s["fields"][g[0]]["tag"] not in sub]
                    add(s, pos + b"".join(keep), "Err MissingRequiredTags:%s" % ",".join(str(t) for t in sorted(sub)),
                        "mandatory tags %s removed" % (sub,))
                    stats["missing"] += 1
            # (4) a foreign tag at every group boundary: the value of the bytes preceding it, or a rejection
            # (not behind an ABSENT positional optional: there the foreign bytes are, by the wire format
            #  itself, read as that positional field — DESIGN 5.1)
            for cut in range(n + 1):
                if absent_pos:
                    continue
                pre = pos + b"".join(g[1] for g in groups[:cut])
                for u in [rng.choice(unk1)] + ([rng.choice(unk2)] if unk2 else []):
                    ub = layouts.tag_bytes(u) if u > 255 else bytes([u])
                    junk = ub + bytes(rng.randrange(256) for _ in range(rng.randrange(0, 9)))
                    add(s, pre + junk, ("PREFIX", len(cases) + 1, junk.hex()), "foreign tag 0x%x after %d groups" % (u, cut))
                    add(s, pre, None, "reference: the preceding bytes alone")
                    stats["foreign"] += 1
    # (5) a foreign tag INSIDE a nested container (at every group boundary of the container's own fields): the packet is rejected, or
    #     its value is that of the bytes preceding the tag — the enclosing fields before the container and the container with its
    #     fields before the tag.  Tags unknown to every level, and tags which are fields of the ENCLOSING struct (the unread rest of
    #     a container must not be read as the enclosing struct's own fields).
    stats["nested"] = 0
    for s in L["structs"]:
        tags_out = {f["tag"] for f in s["fields"] if f["tag"] is not None}
        for _ in range(40 if th else 10):
            v, _b = layouts.gen_struct_value(rng, s)
            if any(f["tag"] is None and f["ty"]["k"] == "opt" and x is None for f, x in zip(s["fields"], v[1])):
                continue
            pos, groups = split_groups(s, v)
            for gi, (j, gb) in enumerate(groups):
                f = s["fields"][j]
                ty, x = f["ty"], v[1][j]
                while ty["k"] in ("opt", "vec"):
                    x = x[1] if ty["k"] == "opt" else (x[0] if x else None)
                    ty = ty["t"]
                    if x is None:
                        break
                if x is None or ty["k"] != "struct" or f["length"] not in ("LTlv",) or not any(g["tag"] is not None for g in ty["fields"]):
                    continue
                if f["ty"]["k"] == "vec" and len(v[1][j]) != 1:
                    continue                                  # one element: the group IS the element
                inner = {"fields": ty["fields"]}
                ipos, igroups = split_groups(inner, x)
                tags_in = {g["tag"] for g in ty["fields"] if g["tag"] is not None}
                tb = layouts.tag_bytes(f["tag"])
                for cut in range(len(igroups) + 1):
                    head = ipos + b"".join(g[1] for g in igroups[:cut])
                    tail = b"".join(g[1] for g in igroups[cut:])
                    ref_body = pos + b"".join(g[1] for g in groups[:gi]) + tb + layouts.len_prefix(f["length"], len(head)) + head
                    cands = []
                    free = [t for t in range(1, 255) if t not in tags_out and t not in tags_in and t not in (0x1f, 0xff)]
                    cands.append((rng.choice(free), None, None))
                    for (j2, gb2) in groups:
                        t2 = s["fields"][j2]["tag"]
                        if j2 != j and t2 not in tags_in and s["fields"][j2]["ty"]["k"] != "vec":
                            cands.append((t2, gb2, j2))
                    absent = [g for g in s["fields"] if g["tag"] is not None and g["tag"] not in tags_in and g["tag"] not in {s["fields"][q]["tag"] for q, _ in groups}]
                    if absent:
                        cands.append((rng.choice(absent)["tag"], None, None))
                    for (xt, xbytes, j2) in cands:
                        junk = xbytes if xbytes is not None else (layouts.tag_bytes(xt) if xt > 255 else bytes([xt])) + bytes(rng.randrange(256) for _ in range(rng.randrange(0, 8)))
                        payload = head + junk + tail
                        if len(payload) > 60000:
                            continue
                        outer_rest = [g[1] for k2, g in enumerate(groups) if k2 > gi and g[0] != j2]
                        outer_pre = [g[1] for k2, g in enumerate(groups) if k2 < gi and g[0] != j2]
                        body = pos + b"".join(outer_pre) + tb + layouts.len_prefix(f["length"], len(payload)) + payload + b"".join(outer_rest)
                        refb = pos + b"".join(outer_pre) + tb + layouts.len_prefix(f["length"], len(head)) + head
                        kind = "NESTED-OUTER" if xt in tags_out else "NESTED"
                        add(s, body, (kind, len(cases) + 1), "foreign tag 0x%x inside the container 0x%x after %d of its groups" % (xt, f["tag"], cut))
                        add(s, refb, None, "reference: the bytes preceding it (the container closed there)")
                        stats["nested"] += 1
    mo = vlib.run_sharded(drv, cases, run.workdir, "c13_model")
    io = vlib.run_sharded(codec, cases, run.workdir, "c13_impl")
    diffs = []
    for k, (c, m, i, e, w) in enumerate(zip(cases, mo, io, expect, why)):
        # C13's projection: value, remainder, and the identity of the error
        if m.split(" re=")[0] != i.split(" re=")[0]:
            diffs.append((c, m, i))
        if e is None:
            continue
        got = i.split(" re=")[0]
        if isinstance(e, tuple) and e[0].startswith("NESTED"):
            ref = io[e[1]].split(" re=")[0]
            good = got.startswith("Err ") or (ref.startswith("Ok ") and got.split(" rem=")[0] == ref.split(" rem=")[0])
            if not good:
                run.violation(kind="input", case=c, expected=((ref.split(" rem=")[0] + " (or any rejection)") if ref.startswith("Ok ") else "a rejection")[:400],
                              observed=got[:400], how_found="oracle",
                              detail=w + ": must reject, or yield exactly the value of the bytes preceding it",
                              **({"finding_class": "nested-foreign-tag-read-as-enclosing-field"} if e[0] == "NESTED-OUTER" else {}))
            elif got.startswith("Ok "):
                run.nontrivial.add(("nested", c.split("\t")[1], w))
            continue
        if isinstance(e, tuple):
            ref = io[e[1]].split(" re=")[0]
            if ref.startswith("Ok "):
                rem = ref.split(" rem=")[1]
                want = ref.split(" rem=")[0] + " rem=" + (("" if rem == "-" else rem) + e[2])
                good = got == want or got.startswith("Err ")
            else:
                want = ref + " (or any rejection)"
                good = got.startswith("Err ")
            if not good:
                run.violation(kind="input", case=c, expected=want[:400], observed=got[:400], how_found="oracle",
                              detail=w + ": must reject, or yield exactly the value of the bytes preceding it")
            elif got.startswith("Ok "):
                run.nontrivial.add(("foreign", c.split("\t")[1], w))
        elif got != e:
            run.violation(kind="input", case=c, expected=e[:400], observed=got[:400], how_found="oracle", detail=w)
        else:
            run.nontrivial.add((c.split("\t")[1], w if not w.startswith("perm") else len(c)))
    run.evaluations += len(cases)
    run.coverage["kinds"] = stats
    run.nontrivial = {str(x) for x in run.nontrivial}
    for k in (0, len(cases) // 3, len(cases) - 2):
        run.sample({"case": cases[k][:200], "why": why[k], "model": mo[k][:160], "impl": io[k][:160]})
    report_diffs(run, diffs, "coq/Codec.v (tag_loop)", "the decode loop generated by #[derive(Zvt)]", "codec")
    vlib.prefer_concrete(run)
    return vlib.finish(run, trusted_base=TB, assumptions=["generated (non-shipped) struct types are covered by C12's derive_gen programs"])


def replay(path):
    from ..common import impl_only
    return impl_only("harness", "codec", path)
