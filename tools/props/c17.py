"""C17 — scalar, text and tag encodings round-trip over their whole domain."""
from .. import vlib
from ..common import proof_part, compare_outputs, impl_only, report_diffs

TB = ["Coq 8.16.1 kernel; no axioms",
      "extraction (ExtrOcamlBasic only) + ocaml/driver.ml",
      "harness/src/bin/prim.rs calling the Encoding impls of /repo's working tree (debug build, overflow checks on; "
      "release build compared in the thorough tier)",
      "coq/Cp437.v table (checked exhaustively against yore through the real decoder)",
      "hand-written model coq/Encoding.v"]

WIDTH = {"u8": 1, "u16": 2, "u32": 4, "u64": 8, "usize": 8}
CP437_HIGH = None


def int_samples(rng, ty, n_random):
    top = 256 ** WIDTH[ty] - 1
    s = {0, 1, top, top - 1}
    k = 1
    while k <= top:
        for d in (-1, 0, 1):
            if 0 <= k + d <= top:
                s.add(k + d)
        k *= 10
    k = 1
    while k <= top:
        for d in (-1, 0, 1):
            if 0 <= k + d <= top:
                s.add(k + d)
        k *= 2
    for _ in range(n_random):
        s.add(rng.randrange(0, top + 1))
        s.add(rng.randrange(0, 10 ** rng.randrange(1, len(str(top)) + 1)) % (top + 1))
    return sorted(s)


def valid_dt(y, mo, d, h, mi, s):
    leap = y % 4 == 0 and (y % 100 != 0 or y % 400 == 0)
    dim = [31, 29 if leap else 28, 31, 30, 31, 30, 31, 31, 30, 31, 30, 31]
    return 1 <= mo <= 12 and 1 <= d <= dim[mo - 1] and h < 24 and mi < 60 and s < 60


def hexs(bs):
    return "".join("%02x" % b for b in bs) or "-"


def cps(s):
    return "s:" + (".".join("%x" % c for c in s) or "-")


def gen_cases(run):
    rng, th = run.rng, run.tier == "thorough"
    c = []
    for e in ("Default", "BigEndian", "Bcd"):
        c.append("p_enc_range\t%s\tu8\t0\t255" % e)
        c.append("p_enc_range\t%s\tu16\t0\t65535" % e)
        for ty in ("u32", "u64", "usize"):
            for n in int_samples(rng, ty, 3000 if th else 300):
                c.append("p_enc\t%s\t%s\t%d" % (e, ty, n))
        for ty in WIDTH:
            for k in ([0, 1, 2, 3] if th and ty in ("u8", "u16") else [0, 1, 2]):
                c.append("p_dec_all\t%s\t%s\t%d" % (e, ty, k))
    # integers: exact-width and longer inputs
    for e in ("Default", "BigEndian"):
        for ty, w in WIDTH.items():
            for _ in range(400 if th else 60):
                n = rng.randrange(0, w + 4)
                c.append("p_dec\t%s\t%s\t%s" % (e, ty, hexs([rng.randrange(256) for _ in range(n)])))
    # BCD inputs of every length 0..11 with digit and F nibbles (and a few A-E nibbles)
    for ty in WIDTH:
        for n in range(0, 12):
            for _ in range(300 if th else 40):
                bs = []
                for i in range(n):
                    hi = rng.choice([0, 1, 5, 9, 9, rng.randrange(10), rng.randrange(16)])
                    lo = rng.choice([0, 9, 9, rng.randrange(10), rng.randrange(10), 15, rng.randrange(16)])
                    bs.append(hi * 16 + lo)
                c.append("p_dec\tBcd\t%s\t%s" % (ty, hexs(bs)))
            c.append("p_dec\tBcd\t%s\t%s" % (ty, hexs([0x99] * n)))
            c.append("p_dec\tBcd\t%s\t%s" % (ty, hexs([0x00] * n + [0x42])))
    # overflow boundaries: the decimal digits of 2^k - 1, 2^k, 2^k + 1 decoded into every width
    for ty in WIDTH:
        for k in (8, 16, 32, 64):
            for d in (-1, 0, 1):
                ds = str(2 ** k + d)
                if len(ds) % 2:
                    ds = "0" + ds
                c.append("p_dec\tBcd\t%s\t%s" % (ty, ds))
                dsf = str(2 ** k + d)
                c.append("p_dec\tBcd\t%s\t%s" % (ty, dsf + "f" if len(dsf) % 2 else "0" + dsf + "f"))
    # receipt number
    c.append("p_enc_range\tReceiptNo\tusize\t0\t10050")
    c.append("p_enc\tReceiptNo\tusize\t65535")
    c.append("p_enc\tReceiptNo\tusize\t65534")
    for k in ([0, 1, 2, 3] if th else [0, 1, 2]):
        c.append("p_dec_all\tReceiptNo\tusize\t%d" % k)
    for _ in range(200):
        c.append("p_dec\tReceiptNo\tusize\t%s" % hexs([rng.choice([255, rng.randrange(256)]) for _ in range(rng.randrange(2, 6))]))
    # tags
    for big in ("0", "1"):
        c.append("tag_enc_all\t%s" % big)
        for k in ([0, 1, 2, 3] if th else [0, 1, 2]):
            for suffix in ("-", "77"):
                if k == 3 and suffix != "-":
                    continue
                c.append("tag_dec_all\t%s\t%d\t%s" % (big, k, suffix))
    # text
    for e in ("Default", "Hex", "Utf8"):
        for k in ([0, 1, 2, 3] if th else [0, 1, 2]):
            c.append("p_dec_all\t%s\tString\t%d" % (e, k))
    table = list(range(128)) + CP437_HIGH
    for _ in range(3000 if th else 400):
        n = rng.choice([0, 1, 2, 3, 5, 17, 40])
        s = [rng.choice(table) for _ in range(n)]
        if rng.random() < 0.15:
            s.insert(rng.randrange(len(s) + 1), rng.choice([0x100, 0x3a9, 0x20ac, 0x1f600, 0x4e2d]))  # not in CP437
        if rng.random() < 0.2:
            s.append(0)
        c.append("p_enc\tDefault\tString\t%s" % cps(s))
    for _ in range(1500 if th else 300):
        n = rng.randrange(0, 65)
        bs = [rng.randrange(256) for _ in range(n)]
        c.append("p_dec\tHex\tString\t%s" % hexs(bs))
        c.append("p_dec\tDefault\tString\t%s" % hexs(bs + [0] * rng.choice([0, 0, 1, 3])))
        hx = [ord(ch) for ch in "".join("%02x" % b for b in bs)]
        c.append("p_enc\tHex\tString\t%s" % cps(hx))
        mode = rng.random()
        if mode < 0.2 and hx:
            hx2 = [ord(chr(x).upper()) for x in hx]
            c.append("p_enc\tHex\tString\t%s" % cps(hx2))
        elif mode < 0.35 and hx:
            c.append("p_enc\tHex\tString\t%s" % cps(hx[:-1]))                       # odd length
        elif mode < 0.5 and hx:
            hx3 = list(hx)
            hx3[rng.randrange(len(hx3))] = rng.choice([ord("g"), ord("G"), ord(" "), 0xe9, 0x2f, 0x3a, 0x40, 0x47, 0x60, 0x67])
            c.append("p_enc\tHex\tString\t%s" % cps(hx3))
    # UTF-8: valid strings, and byte soup around the sequence-length boundaries
    scal = [0, 0x41, 0x7f, 0x80, 0x7ff, 0x800, 0xd7ff, 0xe000, 0xfffd, 0xffff, 0x10000, 0x10ffff, 0xe9, 0x20ac, 0x1f600]
    for _ in range(2500 if th else 400):
        s = [rng.choice(scal + [rng.randrange(0x110000)]) for _ in range(rng.randrange(0, 7))]
        s = [x for x in s if not 0xd800 <= x < 0xe000]
        c.append("p_enc\tUtf8\tString\t%s" % cps(s))
        bs = list("".join(chr(x) for x in s).encode("utf-8"))
        c.append("p_dec\tUtf8\tString\t%s" % hexs(bs))
        if bs:
            b2 = list(bs)
            i = rng.randrange(len(b2))
            b2[i] = rng.choice([0x80, 0xbf, 0xc0, 0xc1, 0xc2, 0xe0, 0xed, 0xf0, 0xf4, 0xf5, 0xff, 0xa0, 0x9f, 0x90, 0x8f, rng.randrange(256)])
            c.append("p_dec\tUtf8\tString\t%s" % hexs(b2))
            c.append("p_dec\tUtf8\tString\t%s" % hexs(bs[:rng.randrange(len(bs))]))
    for lead in (0xc2, 0xdf, 0xe0, 0xe1, 0xec, 0xed, 0xee, 0xef, 0xf0, 0xf1, 0xf3, 0xf4):
        for b1 in (0x7f, 0x80, 0x8f, 0x90, 0x9f, 0xa0, 0xbf, 0xc0):
            for tail in ([], [0x80], [0xbf], [0x80, 0x80], [0xbf, 0xbf], [0x80, 0x41]):
                c.append("p_dec\tUtf8\tString\t%s" % hexs([lead, b1] + tail))
    # date-time TLV
    def bcd(n, nbytes=None):
        ds = str(n)
        if len(ds) % 2:
            ds = "0" + ds
        if nbytes is not None:
            ds = ds.rjust(2 * nbytes, "0")
        return ds
    dates = []
    for y in (0, 1, 23, 1999, 2000, 2023, 2024, 2100, 9999):
        for (mo, d) in ((1, 1), (2, 28), (2, 29), (2, 30), (4, 30), (4, 31), (10, 5), (11, 5), (12, 31), (0, 5), (13, 1), (6, 0), (6, 32)):
            dates.append((y, mo, d))
    times = [(0, 0, 0), (12, 34, 56), (23, 59, 59), (24, 0, 0), (12, 60, 0), (12, 0, 60), (99, 99, 99)]
    for (y, mo, d) in dates:
        for (h, mi, s) in (times if th else times[:4] + [rng.choice(times)]):
            dn, tn = y * 10000 + mo * 100 + d, h * 10000 + mi * 100 + s
            db, tb = bcd(dn, 4), bcd(tn, 3)
            good = "1f0e%02x%s1f0f%02x%s" % (len(db) // 2, db, len(tb) // 2, tb)
            c.append("p_dec\tDefault\tDateTime\t%s" % good)
            if valid_dt(y, mo, d, h, mi, s):   # only values a NaiveDateTime can hold
                c.append("p_enc\tDefault\tDateTime\td:%d,%d,%d,%d,%d,%d" % (y, mo, d, h, mi, s))
    base_d, base_t = "1f0e0420231005", "1f0f03123456"
    for v in [base_t + base_d, base_d, base_t, base_d + base_d, base_d + base_t + base_t, base_d + base_t + "07", base_d + base_t + "1f10",
              base_d + "99" + base_t, "1f0e", "1f", "-", "1f0e05" + "2023100512", "1f0e0a" + "99" * 10, "1f0e0b" + "99" * 11, "1f0f05" + "99" * 5 + base_d,
              "1f0e00" + base_t, base_d + "1f0f00", "1f0e820004" + "20231005" + base_t, "1f0e8104" + "20231005" + base_t,
              "1f0e04" + "ffffffff" + base_t, "1f0e06" + "042949672961" + base_t, "1f0e05" + "2147483648" + base_t,
              "1f0e05" + "4294967295" + base_t, "1f0e05" + "4294101231" + base_t, "1f0e05" + "2147491231" + base_t]:
        c.append("p_dec\tDefault\tDateTime\t%s" % v)
        for cut in range(1, len(v) // 2):
            c.append("p_dec\tDefault\tDateTime\t%s" % v[:2 * cut])
    for _ in range(2000 if th else 300):
        n = rng.randrange(0, 16)
        bs = [rng.choice([0x1f, 0x0e, 0x0f, 3, 4, 0x20, 0x12, 0x99, rng.randrange(256)]) for _ in range(n)]
        c.append("p_dec\tDefault\tDateTime\t%s" % hexs(bs))
    c.append("p_dec\tCustom\tBytes\t-")
    c.append("p_dec\tCustom\tBytes\t00ff10")
    c.append("p_enc\tCustom\tBytes\tb:00ff10")
    c.append("p_enc\tCustom\tBytes\tb:-")
    return c


def expand(case):
    f = case.split("\t")
    if f[0] == "p_enc_range":
        for n in range(int(f[3]), int(f[4]) + 1):
            yield "p_enc\t%s\t%s\t%d" % (f[1], f[2], n)
    elif f[0] == "p_dec_all":
        k = int(f[3])
        for i in range(1 << (8 * k)):
            yield "p_dec\t%s\t%s\t%s" % (f[1], f[2], ("%0*x" % (2 * k, i)) if k else "-")
    elif f[0] == "tag_enc_all":
        for t in range(65536):
            yield "tag_enc\t%s\t%d" % (f[1], t)
    elif f[0] == "tag_dec_all":
        k = int(f[2])
        suf = "" if f[3] == "-" else f[3]
        for i in range(1 << (8 * k)):
            yield "tag_dec\t%s\t%s" % (f[1], ((("%0*x" % (2 * k, i)) if k else "") + suf) or "-")
    else:
        yield case


def oracle(run, prim):
    """The property itself on the implementation: encode, check the form, decode, compare."""
    rng, th = run.rng, run.tier == "thorough"
    enc_cases, meta = [], []
    for e in ("Default", "BigEndian", "Bcd"):
        for ty in WIDTH:
            vals = range(256) if ty == "u8" else range(65536) if ty == "u16" else int_samples(rng, ty, 2000 if th else 300)
            for n in vals:
                enc_cases.append("p_enc\t%s\t%s\t%d" % (e, ty, n))
                meta.append(("int", e, ty, n))
    for t in range(65536):
        enc_cases.append("tag_enc\t0\t%d" % t); meta.append(("tag", "0", None, t))
        enc_cases.append("tag_enc\t1\t%d" % t); meta.append(("tag", "1", None, t))
    outs = vlib.run_sharded(prim, enc_cases, run.workdir, "orc17_enc")
    dec_cases, expect = [], []
    for c, m, o in zip(enc_cases, meta, outs):
        if not o.startswith("Ok "):
            run.violation(kind="input", case=c, expected="Ok <bytes>", observed=o, how_found="oracle")
            continue
        hx = "" if o[3:] == "-" else o[3:]
        if m[0] == "int":
            _, e, ty, n = m
            if e == "Bcd":
                # digits 0-9 only, most significant first, no leading zero byte
                if any(ch in "abcdef" for ch in hx) or (hx and int(hx) != n) or (not hx and n != 0) or hx.startswith("00"):
                    run.violation(kind="input", case=c, expected="packed decimal digits of %d, most significant first" % n,
                                  observed=o, how_found="oracle")
                dec_cases.append("p_dec\tBcd\t%s\t%s" % (ty, hx or "-")); expect.append("Ok %d -" % n)
                if hx and len(str(n)) % 2 == 1 and n > 0:   # F-padded odd-length form of the same digits
                    dec_cases.append("p_dec\tBcd\t%s\t%sf" % (ty, str(n))); expect.append("Ok %d -" % n)
            else:
                want = n.to_bytes(WIDTH[ty], "big" if e == "BigEndian" else "little").hex()
                if hx != want:
                    run.violation(kind="input", case=c, expected="Ok " + want, observed=o, how_found="oracle")
                for suf in ("", "c3"):
                    dec_cases.append("p_dec\t%s\t%s\t%s" % (e, ty, hx + suf)); expect.append("Ok %d %s" % (n, suf or "-"))
                dec_cases.append("p_dec\t%s\t%s\t%s" % (e, ty, hx[:-2] or "-")); expect.append("Err")
        else:
            _, big, _, t = m
            repr_ok = big == "1" or (t < 256 and t not in (0x1f, 0xff)) or (t >> 8) in (0x1f, 0xff)
            if repr_ok:
                for suf in ("", "5a"):
                    dec_cases.append("tag_dec\t%s\t%s" % (big, hx + suf)); expect.append("Ok %d %s" % (t, suf or "-"))
    # digits that do not fit the target integer are an error, never a wrapped value
    for ty, w in WIDTH.items():
        top = 256 ** w
        for n in [top, top + 1, top * 10, top * 100 + 7, 10 ** 20, 10 ** 21 + 3] + [top + rng.randrange(1, top) for _ in range(50)]:
            ds = str(n)
            dec_cases.append("p_dec\tBcd\t%s\t%s" % (ty, ds if len(ds) % 2 == 0 else "0" + ds)); expect.append("Err")
            dec_cases.append("p_dec\tBcd\t%s\t%s" % (ty, ds + "f" if len(ds) % 2 == 1 else "0" + ds + "f")); expect.append("Err")
    # the receipt-number field of partial reversals: exactly two bytes are consumed, whatever follows — the FFFF sentinel as
    # well as every 4-digit number (round-5 seeded change: the sentinel branch handed its two bytes back)
    for n in [65535, 0, 1, 99, 100, 4711, 9998, 9999] + [rng.randrange(10000) for _ in range(40)]:
        two = "ffff" if n == 65535 else "%04d" % n
        for suf in ("", "5a", "ffff", "0102030405"):
            dec_cases.append("p_dec\tReceiptNo\tusize\t%s" % (two + suf)); expect.append("Ok %d %s" % (n, suf or "-"))
    # hex and CP437: bytes -> text -> bytes
    txt_cases, txt_meta = [], []
    for n in (1, 2, 3):
        for pos in range(n):
            for b in range(256):
                bs = [0x41] * n
                bs[pos] = b
                if bs[-1] == 0:
                    continue
                txt_cases.append("p_dec\tDefault\tString\t%s" % hexs(bs)); txt_meta.append(("Default", bs))
    # NEIGHBOURING high bytes: every pair, and triples / quadruples shaped like multi-byte UTF-8 — each byte is one character of
    # the code page whatever stands next to it
    for b1 in range(0x80, 0x100):
        for b2 in range(0x80, 0x100):
            txt_cases.append("p_dec\tDefault\tString\t%s" % hexs([b1, b2])); txt_meta.append(("Default", [b1, b2]))
    for _ in range(20000 if th else 3000):
        lead = rng.choice([rng.randrange(0xC2, 0xE0), rng.randrange(0xE0, 0xF0), rng.randrange(0xF0, 0xF5)])
        n = 2 if lead < 0xE0 else 3 if lead < 0xF0 else 4
        bs = [0x41] * rng.randrange(0, 3) + [lead] + [rng.randrange(0x80, 0xC0) for _ in range(n - 1)] + [0x42] * rng.randrange(0, 3)
        txt_cases.append("p_dec\tDefault\tString\t%s" % hexs(bs)); txt_meta.append(("Default", bs))
    for _ in range(2000 if th else 300):
        bs = [rng.randrange(256) for _ in range(rng.randrange(0, 65))]
        txt_cases.append("p_dec\tHex\tString\t%s" % hexs(bs)); txt_meta.append(("Hex", bs))
    outs_t = vlib.run_sharded(prim, txt_cases, run.workdir, "orc17_txt")
    back_cases, back_expect = [], []
    for c, (e, bs), o in zip(txt_cases, txt_meta, outs_t):
        if not o.startswith("Ok s:") or not o.endswith(" -"):
            run.violation(kind="input", case=c, expected="Ok <string> -", observed=o, how_found="oracle")
            continue
        sval = o[3:-2]
        if e == "Default" and all(0x20 <= b < 0x7f or b >= 0x80 for b in bs):
            # the VALUE, from the code page table of the specification (coq/Cp437.v, kernel-checked bijective), byte by byte
            want = "s:" + (".".join("%x" % (b if b < 0x80 else CP437_HIGH[b - 0x80]) for b in bs) or "-")
            if sval != want:
                run.violation(kind="input", case=c, expected="Ok %s -" % want, observed=o, how_found="oracle",
                              detail="every byte is one character of code page 437, whatever stands next to it")
        if e == "Hex":
            want = "s:" + (".".join("%x" % ord(ch) for ch in "".join("%02x" % b for b in bs)) or "-")
            if sval != want:
                run.violation(kind="input", case=c, expected="Ok %s -" % want, observed=o, how_found="oracle",
                              detail="lower-case hex text of the bytes")
        back_cases.append("p_enc\t%s\tString\t%s" % (e, sval)); back_expect.append("Ok " + hexs(bs))
    outs2 = vlib.run_sharded(prim, dec_cases + back_cases, run.workdir, "orc17_dec")
    for c, e, o in zip(dec_cases + back_cases, expect + back_expect, outs2):
        good = o.startswith("Err ") if e == "Err" else o == e
        if not good:
            run.violation(kind="input", case=c, expected=e, observed=o, how_found="oracle",
                          detail="round trip over the whole domain; digits that do not fit are an error")
    total = len(enc_cases) + len(dec_cases) + len(txt_cases) + len(back_cases)
    run.evaluations += total
    run.coverage["oracle_cases"] = total
    run.sample({"oracle": dec_cases[1000], "expected": expect[1000], "observed": outs2[1000]})


def check(run):
    global CP437_HIGH
    CP437_HIGH = cp437_high_from_coq()
    proof_part(run, "C17")
    drv = vlib.ocaml_build()
    bins = vlib.harness_build("harness", ["prim"])
    cases = gen_cases(run)
    n, diffs = compare_outputs(run, drv, bins["prim"], cases, expand, tag="x")
    run.coverage["correspondence_cases"] = n
    report_diffs(run, diffs, "coq/Encoding.v", "zvt_builder::encoding / PartialReversalReceiptNo / Custom", "prim")
    if run.tier == "thorough":
        rbins = vlib.harness_build("harness", ["prim"], release=True)
        n2, diffs2 = compare_outputs(run, drv, rbins["prim"], cases, expand, tag="xr")
        run.coverage["release_build_cases"] = n2
        report_diffs(run, diffs2, "coq/Encoding.v", "release build of zvt_builder::encoding", "prim")
    oracle(run, bins["prim"])
    vlib.prefer_concrete(run)
    return vlib.finish(run, trusted_base=TB, assumptions=["64-bit usize", "chrono calendar validity modelled in Gallina",
                                                           "yore CP437 table = coq/Cp437.v (all 256 bytes compared)"])


def cp437_high_from_coq():
    import re
    src = open(vlib.COQ + "/Cp437.v").read()
    body = src[src.index("cp437_high : list N := [") + len("cp437_high : list N := ["):]
    body = body[:body.index("]")]
    return [int(x) for x in re.findall(r"\d+", body)]


def replay(path):
    return impl_only("harness", "prim", path)
