"""C02 — decoding is total: arbitrary bytes give a value or an error, never a panic."""
import os
from .. import vlib, layouts, codec_cases as cc
from ..common import proof_part, report_diffs

TB = ["Coq 8.16.1 kernel; no axioms",
      "zvt2coq translator (layouts and reply enums regenerated from /repo on every run)",
      "extraction (ExtrOcamlBasic only) + ocaml/driver.ml",
      "harness/src/bin/codec.rs (catch_unwind, watchdog, counting allocator) built from /repo in debug (overflow checks) and release",
      "hand-written model coq/Codec.v + coq/Encoding.v + coq/Length.v of the derive scheme"]


def gen_cases(run, L):
    rng, th = run.rng, run.tier == "thorough"
    S = {s["name"]: s for s in L["structs"]}
    cases = list(cc.corpus_cases())
    # (a) every short body of every command / container / reply parser
    for s in L["structs"]:
        if s["control"]:
            c, i = s["control"]
            for k in ([0, 1, 2] if th else [0, 1]):
                cases.append("dec_all\t%s\t%02x%02x%02x\t%d" % (s["name"], c, i, k, k))
            cases.append("dec_all\t%s\t-\t1" % s["name"])
            cases.append("dec_all\t%s\t%02x\t1" % (s["name"], c))
            cases.append("dec_all\t%s\t%02x%02x\t1" % (s["name"], c, i))
            cases.append("dec_all\t%s\t%02x%02xff\t2" % (s["name"], c, i))        # extended length, no body
        else:
            for k in ([0, 1, 2] if th else [0, 1]):
                cases.append("dec_all\t%s\t-\t%d" % (s["name"], k))
    for e in L["enums"]:
        cases.append("enum_all\t%s\t-\t1" % e["name"])
        for vn, target in e["variants"]:
            c, i = S[target]["control"]
            for k in ([0, 1, 2] if th else [0, 1]):
                cases.append("enum_all\t%s\t%02x%02x%02x\t%d" % (e["name"], c, i, k, k))
    # (b) truncations and single-byte substitutions of the corpus and of generated packets
    seeds = [(n, b) for n, b in cc.corpus(L)]
    for s in L["structs"]:
        for _ in range(20 if th else 4):
            v, b = layouts.gen_struct_value(rng, s)
            seeds.append((s["name"], b))
    lim = 700 if th else 160
    for name, b in seeds:
        cases.append("dec_trunc\t%s\t%s" % (name, layouts.hexs(b)))
        if 0 < len(b) <= lim:
            cases.append("dec_subst\t%s\t%s" % (name, layouts.hexs(b)))
        elif len(b) > lim:
            for _ in range(300):
                b2 = bytearray(b)
                b2[rng.randrange(len(b))] = rng.randrange(256)
                cases.append("dec\t%s\t%s" % (name, bytes(b2).hex()))
    for e in L["enums"]:
        for vn, target in e["variants"]:
            for _ in range(3 if th else 1):
                v, b = layouts.gen_struct_value(rng, S[target])
                cases.append("enum_trunc\t%s\t%s" % (e["name"], layouts.hexs(b)))
                if 0 < len(b) <= (200 if th else 60):
                    cases.append("enum_subst\t%s\t%s" % (e["name"], layouts.hexs(b)))
    # (c) structure-aware mutations
    for s in L["structs"]:
        for _ in range(3000 if th else 300):
            v, b = layouts.gen_struct_value(rng, s, big=rng.random() < 0.1)
            for _ in range(rng.choice([1, 1, 2, 3])):
                b = layouts.mutate(rng, b)
            cases.append("dec\t%s\t%s" % (s["name"], layouts.hexs(b)))
    return cases


CAL_DATES = ["20231005", "20231305", "20230005", "20230230", "20240229", "20230229", "20231032", "20231000", "99991231", "00000101",
             "0020231005", "999999999999", "99" * 10, "99" * 11,
             # numbers that do not fit the fields they are split into (year: i32, month / day: u32): 2^32 + 20230405, 2^31 + 20230405,
             # 2^32 + 2^31 + 20230405, 2^32 * 3 + 20231231, 2^64 - 1, a year beyond the calendar's range
             "4315197701", "2167714053", "6462681349", "012905132119", "18446744073709551615", "0123450101", "2621420101", "2621430101", "2621450101", "21474836470101"]
CAL_TIMES = ["123456", "240000", "126000", "120060", "000000", "235959", "99" * 5, "4295090752"]


def calendar_cases():
    """date-time containers with calendar values and digit overflow, each with the outcome the property demands: the
    date-time the digits spell if that is a date-time, an error otherwise — never the date-time of a wrapped number"""
    out = []
    for date in CAL_DATES:
        for time in CAL_TIMES:
            inner = "1f0e%02x%s1f0f%02x%s" % (len(date) // 2, date, len(time) // 2, time)
            tlv = "34%02x%s" % (len(inner) // 2, inner)
            body = "f0f0f0" + "00" + "06%02x%s" % (len(tlv) // 2, tlv)
            D, T = int(date), int(time)
            y, mo, d = D // 10000, D // 100 % 100, D % 100
            h, mi, s = T // 10000, T // 100 % 100, T % 100
            leap = y % 4 == 0 and (y % 100 != 0 or y % 400 == 0)
            dim = [31, 29 if leap else 28, 31, 30, 31, 30, 31, 31, 30, 31, 30, 31][mo - 1] if 1 <= mo <= 12 else 0
            ok = D < 2 ** 64 and T < 2 ** 32 and y <= 262143 and 1 <= d <= dim and h < 24 and mi < 60 and s < 60
            out.append(("dec\tzvt::packets::ReceiptPrintoutCompletion\t060f%02x%s" % (len(body) // 2, body),
                        "d:%d,%d,%d,%d,%d,%d" % (y, mo, d, h, mi, s) if ok else None))
    return out


def calendar_oracle(run, drv, progs):
    cal = calendar_cases()
    exp = dict(cal)
    for label, prog in progs:
        flat, mo, io = run_pair(run, drv, prog, [c for c, _ in cal], "c02cal" + label)
        if mo is None:
            continue
        for c, m, i in zip(flat, mo, io):
            e = exp[c]
            good = (i.startswith("Err ") if e is None else i.startswith("Ok ") and ("Some(%s)" % e) in i)
            if not good:
                run.violation(kind="input", case=c, expected=("an error: the digits are no date-time that fits the fields" if e is None else "Ok .. " + e),
                              observed=i[:300] + " (%s build)" % label, how_found="oracle",
                              detail="a number that does not fit its field must be an error, not a silently wrapped value")
            else:
                run.nontrivial.add("cal:" + c[-40:])
        run.evaluations += len(flat)
    run.coverage["calendar_cases"] = len(cal)
    run.coverage["calendar_cases_expected_error"] = sum(1 for _, e in cal if e is None)


def run_pair(run, prog_model, prog_impl, cases, tag):
    bins = cc.balance(cases, vlib.NPROC)
    flat = [c for b in bins for c in b]
    try:
        mo = vlib.run_sharded(prog_model, flat, run.workdir, tag + "_model")
        io = vlib.run_sharded(prog_impl, flat, run.workdir, tag + "_impl")
    except vlib.HangFound as h:
        run.violation(kind="input", case=h.case, expected="a value or an error", observed="Hang (no result within the 10 s watchdog)",
                      how_found="oracle", detail="decoding loops without progress")
        return flat, None, None
    if len(mo) != len(io):
        raise vlib.MachineryError("model printed %d results, implementation %d" % (len(mo), len(io)))
    return flat, mo, io


def analyse(run, flat, mo, io, label):
    diffs, hist = [], {}
    it = (e for c in flat for e in cc.expand(c))
    nontriv = run.nontrivial
    for k, (m, i) in enumerate(zip(mo, io)):
        cls = cc.outcome_class(i)
        hist[cls] = hist.get(cls, 0) + 1
        if cls not in ("Ok", "Err"):
            e = next_case(flat, k)
            run.violation(kind="input", case=e, expected="a value or an error", observed=i + " (%s build)" % label,
                          how_found="oracle", detail="decoding must never panic / overflow / hang")
        if m != i:
            # C02's projection: outcome class (and the value when both are Ok)
            if cc.outcome_class(m) != cls or (cls == "Ok" and m.split(" re=")[0] != i.split(" re=")[0]):
                diffs.append((k, m, i))
        if m.startswith("Ok {") and len(nontriv) < 3000000:
            nontriv.add(m[:120])
        elif m.startswith("Err ") and m != "Err IncompleteData":
            nontriv.add(m)
    run.evaluations += len(mo)
    run.coverage.setdefault("outcome_histogram", {})[label] = hist
    out = []
    for k, m, i in diffs[:100]:
        out.append((next_case(flat, k), m, i + " (%s build)" % label))
    return out


_cache = {}


def next_case(flat, k):
    """the explicit case line for output index k"""
    key = id(flat)
    if key not in _cache:
        offs, t = [], 0
        for c in flat:
            offs.append(t)
            t += cc.n_outputs(c)
        _cache[key] = offs
    offs = _cache[key]
    import bisect
    j = bisect.bisect_right(offs, k) - 1
    for n, e in enumerate(cc.expand(flat[j])):
        if n == k - offs[j]:
            return e
    return flat[j]


def alloc_oracle(run, L, codec):
    """allocation stays within a small multiple of the input (measured inside the harness)"""
    rng = run.rng
    cases = []
    for name, b in cc.corpus(L):
        cases.append("deca\t%s\t%s" % (name, b.hex()))
    for s in L["structs"]:
        for _ in range(40):
            v, b = layouts.gen_struct_value(rng, s, big=rng.random() < 0.3)
            if rng.random() < 0.5:
                b = layouts.mutate(rng, b)
            cases.append("deca\t%s\t%s" % (s["name"], layouts.hexs(b)))
        # many empty TLV elements / long digit strings: the worst allocation per input byte
        cases.append("deca\t%s\t%s" % (s["name"], "0600" * 400))
        cases.append("deca\t%s\t%s" % (s["name"], "6000" * 400))
    outs = vlib.run_sharded(codec, cases, run.workdir, "alloc")
    worst = 0.0
    for c, o in zip(cases, outs):
        if not o.startswith("alloc "):
            continue
        n = int(o.split()[1])
        ln = 0 if c.split("\t")[2] == "-" else len(c.split("\t")[2]) // 2
        bound = 64 * ln + 8192
        worst = max(worst, n / max(1, ln))
        if n > bound:
            run.violation(kind="input", case=c.replace("deca", "dec", 1), expected="peak allocation <= 64*len + 8192 = %d" % bound,
                          observed="%d bytes" % n, how_found="oracle", detail="allocation beyond a small multiple of the input")
    run.evaluations += len(cases)
    run.coverage["alloc_cases"] = len(cases)
    run.coverage["alloc_worst_bytes_per_input_byte"] = round(worst, 1)


def wide_int_oracle(run, L, drv, progs):
    """a binary integer under a BER-TLV length announcing MORE bytes than the field is wide (`1F 1A 03 01 00 00` into a u16): a
    number that does not fit its field — the property demands an error"""
    from .c13 import split_groups, frame
    rng = run.rng
    cases, what = [], []
    for s in L["structs"]:
        for j, f in enumerate(s["fields"]):
            ty = f["ty"]
            while ty["k"] in ("opt", "vec"):
                ty = ty["t"]
            if f["tag"] is None or ty["k"] != "prim" or ty["p"] not in ("u8", "u16", "u32", "u64") or f["length"] != "LTlv" \
                    or f["encoding"] not in ("Default", "BigEndian"):
                continue
            w = {"u8": 1, "u16": 2, "u32": 4, "u64": 8}[ty["p"]]
            v = layouts.minimal_value(s)
            pos, groups = split_groups(s, v)
            others = b"".join(g[1] for g in groups if g[0] != j)
            for extra in (1, 2, 3):
                n = (rng.randrange(1, 256) << (8 * w)) + rng.randrange(1 << (8 * w)) if extra == 1 else rng.randrange(1 << (8 * (w + extra - 1)), 1 << (8 * (w + extra)))
                raw = n.to_bytes(w + extra, "big" if f["encoding"] == "BigEndian" else "little")
                body = pos + others + layouts.tag_bytes(f["tag"]) + layouts.len_prefix("LTlv", len(raw)) + raw
                cases.append("dec\t%s\t%s" % (s["name"], layouts.hexs(frame(s, body))))
                what.append("%s.%s (%s, tag 0x%x) announced with %d bytes: the number %d" % (s["name"], f["name"], ty["p"], f["tag"], w + extra, n))
    for label, prog in progs:
        flat, mo, io = run_pair(run, drv, prog, cases, "c02wide" + label)
        if mo is None:
            continue
        label_of = dict(zip(cases, what))
        for c, m, i in zip(flat, mo, io):
            wh = label_of.get(c, "")
            if not i.startswith("Err "):
                run.violation(kind="input", case=c, expected="an error: the number does not fit its field", observed=i[:300] + " (%s build)" % label,
                              how_found="oracle", detail=wh, finding_class="binary-integer-announced-wider-than-its-field")
            else:
                run.nontrivial.add("wide:" + c[-40:])
        run.evaluations += len(flat)
    run.coverage["wide_integer_cases"] = len(cases)


def check(run):
    proof_part(run, "C02")
    L = layouts.load()
    drv = vlib.ocaml_build()
    dbg = vlib.harness_build("harness", ["codec"])["codec"]
    rel = vlib.harness_build("harness", ["codec"], release=True)["codec"]
    cases = gen_cases(run, L)
    run.coverage["case_lines"] = len(cases)
    all_diffs = []
    # third pass: the debug build with a logger that accepts every level and formats every record (as under RUST_LOG=trace): the
    # arguments of the library's own log lines are evaluated — a panic hidden in one is a panic of the decoder
    import os, stat
    os.makedirs(run.workdir, exist_ok=True)
    logged = os.path.join(run.workdir, "codec_logged.sh")
    with open(logged, "w") as f:
        f.write("#!/bin/sh\nZVT_HARNESS_LOG=1 exec %s \"$@\"\n" % dbg)
    os.chmod(logged, os.stat(logged).st_mode | stat.S_IEXEC)
    for label, prog in (("debug", dbg), ("release", rel), ("debug+log", logged)):
        # the library's log lines print the whole rest of the input at every tag: formatting them is quadratic, so the logged pass
        # leaves out the few inputs above 4 KiB (they are decoded in the other two passes) — a log line cannot tell them apart
        # and the substitution sweeps of inputs above 160 bytes (one case line = 256 x length decodes: with every log line formatted
        # that exceeds the harness' 10 s watchdog per line — a false "Hang" in the thorough tier, found by `vp run` 7)
        def light(c):
            f = c.split("\t")
            if f[0] in ("dec_subst", "enum_subst"):
                return len(f[-1]) <= 320
            if f[0] in ("dec_all", "enum_all"):
                return f[-1] in ("0", "1")
            return len(f[-1]) <= 8192
        these = cases if label != "debug+log" else [c for c in cases if light(c)]
        flat, mo, io = run_pair(run, drv, prog, these, "c02" + label.replace("+", "_"))
        if mo is None:
            continue
        all_diffs += analyse(run, flat, mo, io, label)
        if label == "debug":
            for k in (3, 1000, len(mo) // 2):
                if k < len(mo):
                    run.sample({"case": next_case(flat, k), "model": mo[k][:160], "impl": io[k][:160]})
    report_diffs(run, all_diffs, "coq/Codec.v", "the decoders generated by zvt_derive", "codec")
    calendar_oracle(run, drv, (('debug', dbg), ('release', rel)))
    alloc_oracle(run, L, dbg)
    wide_int_oracle(run, L, drv, (('debug', dbg), ('release', rel)))
    vlib.prefer_concrete(run)
    return vlib.finish(run, trusted_base=TB,
                       assumptions=["64-bit usize", "allocation bound is measured (counting allocator), not proved",
                                    "the transport reader (zvt/src/io.rs) is covered by C04"])


def replay(path):
    from ..common import impl_only
    return impl_only("harness", "codec", path)
