"""C15 — replies are dispatched solely by their class and instruction bytes."""
from .. import vlib, layouts, codec_cases as cc
from ..common import proof_part, report_diffs
from .c02 import run_pair, next_case
from .. import spec

TB = ["Coq 8.16.1 kernel; no axioms", "zvt2coq translator (reply enums, control fields regenerated)",
      "coq/spec/Spec.v reply-set table (hand transcription of ZVT ch. 2 / Feig manual)",
      "extraction + ocaml/driver.ml", "harness/src/bin/codec.rs (generated dispatch over every ZvtEnum)"]


def check(run):
    proof_part(run, "C15")
    L = layouts.load()
    S = {s["name"]: s for s in L["structs"]}
    rng, th = run.rng, run.tier == "thorough"
    drv = vlib.ocaml_build()
    codec = vlib.harness_build("harness", ["codec"])["codec"]
    cases, plan = [], []          # plan: (enum, body hex) for enum_cf_all lines
    for e in L["enums"]:
        bodies = ["-"]
        targets = [t for _, t in e["variants"]]
        # a body valid for one of its variants, one valid for a packet of another enum, random ones
        for t in targets:
            for _ in range(10):
                v, b = layouts.gen_struct_value(rng, S[t])
                body = b[3:] if len(b) >= 3 and b[2] != 0xff else None
                if body is not None and 0 < len(body) < 250:
                    bodies.append(body.hex())
                    break
        other = rng.choice([s for s in L["structs"] if s["control"] and s["name"] not in targets])
        v, b = layouts.gen_struct_value(rng, other)
        if len(b) >= 3 and b[2] != 0xff and len(b) > 3:
            bodies.append(b[3:].hex())
        for _ in range(3 if th else 1):
            bodies.append(bytes(rng.randrange(256) for _ in range(rng.randrange(1, 24))).hex())
        for body in bodies:
            cases.append("enum_cf_all\t%s\t%s" % (e["name"], body))
        # the announced length disagreeing with what is there: the variant's own decoder decides, the dispatcher must
        # not look past / short of the announced length on its own (round-2 seeded change C15-enum-skips-apdu-length)
        for t in targets:
            cfb = bytes(S[t]["control"])
            for _ in range(6 if th else 2):
                v, b = layouts.gen_struct_value(rng, S[t])
                if len(b) < 3 or b[2] == 0xff or len(b) > 120:
                    continue
                body = b[3:]
                n = len(body)
                junk = bytes(rng.randrange(256) for _ in range(rng.randrange(1, 6)))
                for ln in sorted({0, 1, max(0, n - 2), max(0, n - 1), n, n + 1, n + 2, n + len(junk), 254}):
                    for tail in (b"", junk):
                        cases.append("enum\t%s\t%s" % (e["name"], (cfb + bytes([ln]) + body + tail).hex()))
                if n <= 14:
                    cases.append("enum_subst\t%s\t%s" % (e["name"], b.hex()))
                cases.append("enum_trunc\t%s\t%s" % (e["name"], (b + junk).hex()))
        cases.append("enum_all\t%s\t-\t0" % e["name"])
        cases.append("enum_all\t%s\t-\t1" % e["name"])
        if th:
            cases.append("enum_all\t%s\t-\t2" % e["name"])
    flat, mo, io = run_pair(run, drv, codec, cases, "c15")
    diffs = []
    if mo is not None:
        cfs = {e["name"]: [tuple(S[t]["control"]) for _, t in e["variants"]] for e in L["enums"]}
        spec_sets = {e["name"]: spec.reply_set_of_enum(L, e["name"]) for e in L["enums"]}
        run.coverage["enums_with_spec_reply_set"] = sum(1 for v in spec_sets.values() if v is not None)
        # oracle on the implementation alone
        dec_cases, dec_expect = [], []
        ok_example = {}            # (enum, control field) -> a case the enum's parser accepted
        k = 0
        for c in flat:
            f = c.split("\t")
            for e in cc.expand(c):
                m, i = mo[k], io[k]
                if m != i:
                    diffs.append((e, m, i))
                hx = e.split("\t")[2]
                bs = b"" if hx == "-" else bytes.fromhex(hx)
                if len(bs) < 2:
                    if not i.startswith("Err "):
                        run.violation(kind="input", case=e, expected="Err (shorter than two bytes)", observed=i, how_found="oracle")
                else:
                    cf = (bs[0], bs[1])
                    ss = spec_sets.get(f[1])
                    if ss is not None and cf not in ss and not i.startswith("Err "):
                        run.violation(kind="input", case=e, expected="Err (control field %02x %02x is outside the specified reply set of this command)" % cf,
                                      observed=i[:200], how_found="oracle")
                    if ss is not None and cf in ss and i == "Err WrongTag:0":
                        run.violation(kind="input", case=e, expected="dispatch to the variant for %02x %02x (it is in the specified reply set)" % cf,
                                      observed=i, how_found="oracle")
                    if cf not in cfs[f[1]]:
                        if not i.startswith("Err "):
                            run.violation(kind="input", case=e, expected="Err (control field %02x %02x is outside the reply set)" % cf,
                                          observed=i[:200], how_found="oracle")
                    else:
                        idx = cfs[f[1]].index(cf)
                        target = [t for _, t in L["enums"][[x["name"] for x in L["enums"]].index(f[1])]["variants"]][idx]
                        if i.startswith("Ok ") and not i.startswith("Ok %d " % idx):
                            run.violation(kind="input", case=e, expected="variant %d (%s)" % (idx, target), observed=i[:200], how_found="oracle")
                        if len(dec_cases) < 400000:
                            dec_cases.append("dec\t%s\t%s" % (target, hx))
                            dec_expect.append((e, idx, i))
                        if i.startswith("Ok "):
                            run.nontrivial.add(i[:100])
                            ok_example.setdefault((f[1], cf), (e, i))
                k += 1
        # per COMMAND (not per enum): the reply parser a command is bound to (`type Output` of its `impl Sequence`) must not accept a
        # control field outside THAT command's specified reply set — an enum that is right in itself can be bound to the wrong command
        x = spec.exchanges()
        for s in L["sequences"]:
            short = s["name"].split("::")[-1]
            if short not in x or short == "WriteFile":
                continue
            want = {cf for cf, _ in x[short]["replies"]}
            for (en, cf), (e, i) in sorted(ok_example.items()):
                if en == s["output"] and cf not in want:
                    run.violation(kind="input", case=e, expected="Err (control field %02x %02x is outside the specified reply set of the command %s)" % (cf + (short,)),
                                  observed=i[:200], how_found="oracle", detail="%s is bound to the reply parser %s" % (s["name"], en))
        # content = exactly what the variant's packet type decodes on its own
        outs = vlib.run_sharded(codec, dec_cases, run.workdir, "c15dec")
        for c, (e, idx, i), o in zip(dec_cases, dec_expect, outs):
            if o.startswith("Ok "):
                want = "Ok %d %s" % (idx, o[3:].split(" rem=")[0])
            else:
                want = o
            if i != want:
                run.violation(kind="input", case=e, expected=want[:300], observed=i[:300], how_found="oracle",
                              detail="the parser's answer must be the answer of %s on its own" % c.split("\t")[1])
        run.evaluations += len(mo) + len(dec_cases)
        run.coverage["control_fields_per_enum"] = 65536
        run.coverage["exhaustive"] = True
        for k in (10, 65536 + 1551, len(mo) // 2):
            if k < len(mo):
                run.sample({"case": next_case(flat, k), "model": mo[k][:120], "impl": io[k][:120]})
    report_diffs(run, diffs, "coq/Codec.v parse_enum", "the parsers generated by #[derive(ZvtEnum)]", "codec")
    vlib.prefer_concrete(run)
    return vlib.finish(run, trusted_base=TB, assumptions=["reply-set table is my transcription of the specification"])


def replay(path):
    from ..common import impl_only
    return impl_only("harness", "codec", path)
