"""C07 — transaction tokens map one-to-one onto open pre-authorisations."""
import itertools
from .. import vlib, client_cases as cc
from ..common import proof_part, report_diffs

TB = ["Coq 8.16.1 kernel; no axioms", "zvt2coq translator (layouts, reply enums, sequence tables, error table regenerated)",
      "extraction + ocaml/driver.ml", "harness_client: the real Feig client (cargo feature zvt_verif: in-memory connector) under tokio's paused clock",
      "tools/client_cases.py: simulated terminal + the abstract token map (specification of the client)",
      "hand-written model coq/Client.v of stream.rs / feig.rs; 64-bit usize"]


def plan_history(S, hist, mx, rng):
    """builds the scenario for a history [(op, token, outcome)] and the expectations of the abstract map"""
    sc = cc.Scenario(S, {"max": mx, "amount": rng.choice([2500, 1, 999999999999])}).start()
    cfg = sc.cfg
    open_ = {}
    # the terminal's receipt counter runs over the WHOLE four-digit range, 0000 and 9999 included, and wraps
    nxt = [rng.choice([0, 0, 9998, 9999, rng.randrange(0, 10000)])]

    def idle_cleanup():
        # map became empty after a completed commit/cancel: pending query, (reversal), end of day
        sc.exchange(S.pending_query(), [S.pr_abort(0xb8, 0xFFFF)])
        sc.exchange(S.end_of_day(cfg["pw"]), [S.completion()])

    for op, tok, out in hist:
        th = tok.encode().hex()
        if op == "begin":
            sc.ops.append("begin:" + th)
            if len(open_) == mx:
                sc.exp_results.append("Err:Active:max")
            elif tok in open_:
                sc.exp_results.append("Err:Active:inuse")
            else:
                req = S.reservation(cfg["cur"], cfg["amount"], tok)
                if out == "ok":
                    r = nxt[0]; nxt[0] = (nxt[0] + 1) % 10000
                    shape = rng.randrange(4)
                    if shape == 0:
                        replies = [S.intermediate(), S.status_info({0x27: 0, 0x87: r}), S.completion()]
                    elif shape == 1:        # the receipt number, then a further status information without one: the number stands
                        replies = [S.status_info({0x27: 0, 0x87: r}), S.intermediate(), S.status_info({0x27: 0}), S.completion()]
                    elif shape == 2:        # two numbers: the LAST one is the reservation's
                        replies = [S.status_info({0x27: 0, 0x87: (r + 1) % 10000}), S.status_info({0x27: 0, 0x87: r}), S.completion()]
                    else:                   # none, then the number
                        replies = [S.status_info({0x27: 0}), S.status_info({0x27: 0, 0x87: r}), S.intermediate(), S.completion()]
                    sc.exchange(req, replies)
                    open_[tok] = r
                    sc.exp_results.append("Ok")
                elif out == "abort":
                    sc.exchange(req, [S.intermediate(), S.abort(0x6f)])
                    sc.exp_results.append("Err:Zvt:Aborted:111")
                else:
                    sc.exchange(req, [S.status_info({0x27: 0}), S.completion()])
                    sc.exp_results.append("Err:Zvt:IncompleteData")
        elif op == "commit":
            final = rng.choice([0, 1, 1000, cfg["amount"], cfg["amount"] + 1, 2 ** 64 - 1])
            sc.ops.append("commit:%s:%d" % (th, final))
            if tok not in open_:
                sc.exp_results.append("Err:UnknownToken")
            else:
                r = open_.pop(tok)
                req = S.partial_reversal(r, cfg["cur"], cfg["amount"] - min(cfg["amount"], final), tok)
                if out == "abort":
                    sc.exchange(req, [S.pr_abort(0x64)])
                    sc.exp_results.append("Err:Zvt:Aborted:100")
                else:
                    sc.exchange(req, [S.status_info({0x27: 0, 0x04: 1234, 0x0B: 77, 0x0C: 93001, 0x0D: 517, 0x29: 52523535}), S.completion()])
                    if not open_:
                        idle_cleanup()
                    sc.exp_results.append("Ok:tid=52523535,amount=1234,trace=77,date=0517,time=093001")
        else:
            sc.ops.append("cancel:" + th)
            if tok not in open_:
                sc.exp_results.append("Err:UnknownToken")
            else:
                r = open_.pop(tok)
                req = S.preauth_reversal(cfg["cur"], r)
                if out == "abort":
                    sc.exchange(req, [S.pr_abort(0xb5)])
                    sc.exp_results.append("Err:Zvt:Aborted:181")
                else:
                    sc.exchange(req, [S.completion()])
                    if not open_:
                        idle_cleanup()
                    sc.exp_results.append("Ok")
    return sc


def run_scenarios(run, scs, tag):
    drv = vlib.ocaml_build()
    client = vlib.harness_build("harness_client", ["zvt_verif_harness_client"])["zvt_verif_harness_client"]
    cases = [s.line() for s in scs]
    mo = vlib.run_sharded(drv, cases, run.workdir, tag + "_model")
    # the implementation, with recovery from cases on which it never returns (a busy loop that lets no virtual time pass is cut
    # by the harness' real-time watchdog): such a case is answered "Hang", the others are run again without it
    pending, answers, hangs = list(range(len(cases))), {}, 0
    while pending:
        try:
            outs = vlib.run_sharded(client, [cases[k] for k in pending], run.workdir, tag + "_impl")
            answers.update(zip(pending, outs))
            break
        except vlib.HangFound as h:
            k = next((k for k in pending if cases[k] == h.case), pending[0])
            answers[k] = "Hang (no result within the real-time watchdog: the call spins without letting time pass)"
            pending.remove(k)
            hangs += 1
            if hangs >= 6:
                for k in pending:
                    answers[k] = "NotRun (after 6 hangs)"
                break
    io = [answers[k] for k in range(len(cases))]
    # the extracted client model against Coq's own evaluator on a sample of these histories (trusted base)
    from .. import vmcheck
    vmcheck.client_crosscheck(run, cases, mo, limit=(96 if run.tier == "thorough" else 24))
    return cases, mo, io


def judge(run, scs, cases, mo, io, what, check_writes=True):
    diffs = []
    bad = 0
    for sc, c, m, i in zip(scs, cases, mo, io):
        if m != i:
            diffs.append((c[:3000], m[:1500], i[:1500]))
        p = cc.parse_output(i)
        if p is None:
            run.violation(kind="history", case=c[:3000], expected="results || log || T", observed=i[:600], how_found="oracle", detail=what)
            continue
        res, ev, T = p
        got = [r[0] for r in res[1:]]
        ok = got == sc.exp_results or all(e is None or e == g or (e.startswith("~") and g.startswith(e[1:])) for e, g in zip(sc.exp_results, got)) and len(got) == len(sc.exp_results)
        wbc = cc.writes_by_conn(ev)
        wok = True
        if check_writes:
            for cid, exp in enumerate(sc.exp_writes):
                if [b.hex() for b in exp] != wbc.get(cid, []):
                    wok = False
        if not ok or not wok:
            if not getattr(sc, "finding_class", None):
                bad += 1
            if bad <= 5 or getattr(sc, "finding_class", None):
                extra = {"finding_class": sc.finding_class} if getattr(sc, "finding_class", None) else {}
                run.violation(kind="history", case=c[:4000],
                              expected=("results " + ";".join(str(x) for x in sc.exp_results) + " | writes " +
                                        " / ".join(",".join(b.hex() for b in w) for w in sc.exp_writes))[:3000],
                              observed=i[:3000], how_found="oracle", detail=what, **extra)
        else:
            run.nontrivial.add(hash(c))
    run.evaluations += len(cases)
    return diffs


def check(run):
    proof_part(run, "C07")
    rng, th = run.rng, run.tier == "thorough"
    S = cc.Spec()
    toks = ["A1", "tok-b", "Z"] if th else ["A1", "tok-b"]
    alphabet = [("begin", t, o) for t in toks for o in ("ok", "abort", "noreceipt")] + \
               [("commit", t, o) for t in toks for o in ("ok", "abort")] + [("cancel", t, o) for t in toks for o in ("ok", "abort")]
    hists = []
    depth = 3
    for d in range(1, depth + 1):
        hists += list(itertools.product(alphabet, repeat=d))
    if th:
        hists += [tuple(rng.choice(alphabet) for _ in range(4)) for _ in range(20000)]
    # random walks to depth 40, biased towards begins that succeed so that the map fills up
    for _ in range(300 if th else 60):
        hists.append(tuple(rng.choice(alphabet + [("begin", t, "ok") for t in toks] * 3) for _ in range(rng.randrange(10, 41))))
    if not th and len(hists) > 3500:
        hists = hists[:len(alphabet) + len(alphabet) ** 2] + rng.sample(hists[len(alphabet) + len(alphabet) ** 2:], 3000)
    scs = []
    for h in hists:
        for mx in (0, 1, 2, 3):
            if len(h) >= 3 and rng.random() < 0.5:
                continue
            scs.append(plan_history(S, h, mx, rng))
    cases, mo, io = run_scenarios(run, scs, "c07")
    diffs = judge(run, scs, cases, mo, io,
                  "token map: begin only for a token that is not open and below the maximum, records the issued receipt number; commit/cancel only for an open token, "
                  "on exactly its receipt number, closing it; refused calls cause no traffic")
    run.coverage["histories"] = len(scs)
    run.coverage["max_transactions"] = [0, 1, 2, 3]
    run.nontrivial = {str(x) for x in run.nontrivial}
    for k in (0, len(cases) // 2, len(cases) - 1):
        run.sample({"case": cases[k][:400], "impl": io[k][:400]})
    report_diffs(run, diffs, "coq/Client.v", "zvt_feig_terminal (Feig, ResetSequence)", "client")
    vlib.prefer_concrete(run)
    return vlib.finish(run, trusted_base=TB, assumptions=["ASCII tokens and serials", "the in-memory connector stands for TCP"])


def replay(path):
    from ..common import impl_only
    return impl_only("harness_client", "zvt_verif_harness_client", path)
