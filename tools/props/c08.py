"""C08 — commit releases exactly the unused part of the pre-authorisation."""
from .. import vlib, client_cases as cc
from ..common import proof_part, report_diffs
from .c07 import TB, run_scenarios, judge


def check(run):
    proof_part(run, "C08")
    rng, th = run.rng, run.tier == "thorough"
    S = cc.Spec()
    scs = []
    pres = [0, 1, 2500, 999999999999, 10 ** 11, 99, 100, 9999, 10 ** 6] + [rng.randrange(10 ** rng.randrange(1, 13)) for _ in range(30 if th else 5)]
    for pre in pres:
        finals = [0, 1, max(0, pre - 1), pre, pre + 1, 10 ** 12 - 1, 10 ** 12, 2 ** 32, 2 ** 63, 2 ** 64 - 1, rng.randrange(2 ** 64), rng.randrange(pre + 1)]
        for final in finals:
            for cur in ((978, 826, 752) if th else (rng.choice([978, 826, 752]),)):
                for _ in range(3 if th else 1):
                    # arbitrary CP437 text: ASCII, accented letters, box drawing, Greek, symbols
                    tok = "".join(rng.choice("ABCDEFabcdef0123456789-_. éüñßÄ£¥░│╬αΩ±÷°") for _ in range(rng.randrange(1, 17)))
                    receipt = rng.choice([0, 1, 9999, rng.randrange(0, 10000)])
                    sc = cc.Scenario(S, {"amount": pre, "cur": cur, "max": 2}).start()
                    cfg = sc.cfg
                    # begin: the reservation must be for the configured amount and currency, token in BMP60 ("AC", token)
                    sc.ops.append("begin:" + tok.encode().hex())
                    sc.exchange(S.reservation(cur, pre, tok), [S.status_info({0x27: 0, 0x87: receipt}), S.completion()])
                    sc.exp_results.append("Ok")
                    # a second open transaction so that the commit does not trigger the idle clean-up (C19's business)
                    sc.ops.append("begin:" + "other".encode().hex())
                    sc.exchange(S.reservation(cur, pre, "other"), [S.status_info({0x27: 0, 0x87: 77}), S.completion()])
                    sc.exp_results.append("Ok")
                    amount = rng.choice([0, 10 ** 12 - 1, rng.randrange(10 ** 12)])
                    trace = rng.choice([0, 999999, rng.randrange(10 ** 6)])
                    time = rng.choice([0, 1, 93001, 235959, 999999, rng.randrange(10 ** 6)])
                    date = rng.choice([101, 517, 1231, 0, 9999, rng.randrange(10 ** 4)])
                    tid = rng.choice([0, 1, 52523535, 99999999, rng.randrange(10 ** 8)])
                    sc.ops.append("commit:%s:%d" % (tok.encode().hex(), final))
                    # two status informations: the summary must reproduce the LAST one
                    sc.exchange(S.partial_reversal(receipt, cur, pre - min(pre, final), tok),
                                [S.status_info({0x27: 0, 0x04: 1, 0x0B: 2, 0x0C: 3, 0x0D: 4, 0x29: 5}), S.intermediate(),
                                 S.status_info({0x27: 0, 0x04: amount, 0x0B: trace, 0x0C: time, 0x0D: date, 0x29: tid}), S.completion()])
                    sc.exp_results.append("Ok:tid=%08d,amount=%d,trace=%d,date=%04d,time=%06d" % (tid, amount, trace, date, time))
                    scs.append(sc)
    # long reference tokens: the TLV objects around the token (1F63 in E9 in the 06 container) pass the 127/128 and 255/256
    # length-form switches (round-3 seeded change C08-tlv-128-short-form)
    for L in list(range(108, 136)) + [200, 243, 244, 245, 246, 247, 248, 249, 250, 255, 256, 300] + ([rng.randrange(17, 400) for _ in range(40)] if th else []):
        tok = "".join(rng.choice("ABCDEFGHJKLMNPQRSTUVWXYZ0123456789") for _ in range(L))
        pre, final, cur, receipt = 2500, rng.choice([0, 1, 2499, 2500, 2501]), 978, rng.randrange(1, 10000)
        sc = cc.Scenario(S, {"amount": pre, "cur": cur, "max": 2}).start()
        sc.ops.append("begin:" + tok.encode().hex())
        sc.exchange(S.reservation(cur, pre, tok), [S.status_info({0x27: 0, 0x87: receipt}), S.completion()])
        sc.exp_results.append("Ok")
        sc.ops.append("begin:" + "other".encode().hex())
        sc.exchange(S.reservation(cur, pre, "other"), [S.status_info({0x27: 0, 0x87: 77}), S.completion()])
        sc.exp_results.append("Ok")
        sc.ops.append("commit:%s:%d" % (tok.encode().hex(), final))
        sc.exchange(S.partial_reversal(receipt, cur, pre - min(pre, final), tok), [S.status_info({0x27: 0, 0x04: 7, 0x0B: 8, 0x0C: 9, 0x0D: 10, 0x29: 11}), S.completion()])
        sc.exp_results.append("Ok:tid=00000011,amount=7,trace=8,date=0010,time=000009")
        scs.append(sc)
    for r1, r2 in ((17, 18), (0, 9999), (9999, 0), (4711, 4711)):
        for across in (False, True):
            pre, final, cur, tok = 2500, 1000, 978, "tok"
            sc = cc.Scenario(S, {"amount": pre, "cur": cur, "max": 2}).start()
            sc.ops.append("begin:" + tok.encode().hex())
            if across:
                # attempt 1 reports r1, then the connection is closed; the call reconnects, re-sends the reservation, attempt 2 reports r2
                sc.expect_write(S.reservation(cur, pre, tok)); sc.feed(cc.ACK); sc.feed(S.status_info({0x27: 0, 0x87: r1})); sc.expect_write(cc.ACK)
                sc.new_conn(end_prev="C"); sc.handshake()
                sc.exchange(S.reservation(cur, pre, tok), [S.status_info({0x27: 0, 0x87: r2}), S.completion()])
            else:
                sc.exchange(S.reservation(cur, pre, tok), [S.status_info({0x27: 0, 0x87: r1}), S.intermediate(), S.status_info({0x27: 0, 0x87: r2}), S.completion()])
            sc.exp_results.append("Ok")
            sc.ops.append("begin:" + "other".encode().hex())
            sc.exchange(S.reservation(cur, pre, "other"), [S.status_info({0x27: 0, 0x87: 77}), S.completion()])
            sc.exp_results.append("Ok")
            sc.ops.append("commit:%s:%d" % (tok.encode().hex(), final))
            sc.exchange(S.partial_reversal(r2, cur, pre - final, tok), [S.status_info({0x27: 0, 0x04: 7, 0x0B: 8, 0x0C: 9, 0x0D: 10, 0x29: 11}), S.completion()])
            sc.exp_results.append("Ok:tid=00000011,amount=7,trace=8,date=0010,time=000009")
            scs.append(sc)
    cases, mo, io = run_scenarios(run, scs, "c08")
    diffs = judge(run, scs, cases, mo, io,
                  "commit asks to release exactly pre - min(pre, final) in the configured currency against the token's receipt number and reference (BMP60 'AC' + token); "
                  "reservations are for the configured amount/currency; the summary reproduces the last status information")
    run.coverage["preauth_amounts"] = pres[:5]
    run.nontrivial = {str(x) for x in run.nontrivial}
    run.sample({"case": cases[0][:400], "impl": io[0][:500]})
    report_diffs(run, diffs, "coq/Client.v", "zvt_feig_terminal::feig", "client")
    vlib.prefer_concrete(run)
    return vlib.finish(run, trusted_base=TB, assumptions=["64-bit usize", "tokens over a CP437 alphabet (ASCII + accented, box drawing, Greek, symbols)",
                                                           "terminal id is rendered with to_string(): leading zeros of the 8-digit id are not kept (observation O7)"])


def replay(path):
    from ..common import impl_only
    return impl_only("harness_client", "zvt_verif_harness_client", path)
