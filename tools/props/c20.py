"""C20 — a terminal abort always surfaces as an error identifying its result code."""
from .. import vlib, layouts, spec, client_cases as cc
from ..common import proof_part, report_diffs
from .c07 import TB, run_scenarios, judge


def msg_text(s):
    return "".join(ch if (ch.isalnum() and ch.isascii()) or ch in "-_.:()/=," else "_" for ch in s)


def check(run):
    proof_part(run, "C20")
    rng, th = run.rng, run.tier == "thorough"
    S = cc.Spec()
    known = spec.result_codes()          # the specification's table, not the code's
    scs, labels = [], []

    def add(sc, label):
        scs.append(sc); labels.append(label)

    # an abort that arrives LATE: the terminal reports its time-out (or any other failure) only after the read-card time it was
    # given; the code must still surface — for long configured times as well (the client's patience is that time + 2 s)
    for rct in (15, 59, 60, 61, 100, 254, 255):
        for c in (0x6c, 0x64, 0x6f, 0x05):
            sc = cc.Scenario(S, {"rct": rct}).start()
            sc.ops.append("read_card")
            sc.expect_write(S.read_card_req(rct)); sc.feed(cc.ACK); sc.feed(S.abort(c), delay=rct * 1000 + 1500); sc.expect_write(cc.ACK)
            sc.exp_results.append("Err:NoCard" if c == 0x6c else ("Err:Msg:" + msg_text("Unhandled error: " + known[c])) if c in known else "Err:Msg:Unknown_error_code:_0x%X" % c)
            add(sc, "read-card-late-abort")
    for c in range(256):
        for n_inter in ((0, 1, 2) if th else (rng.choice([0, 1, 2]),)):
            pre = [S.intermediate()] * n_inter
            # read card
            sc = cc.Scenario(S).start()
            sc.ops.append("read_card"); sc.exchange(S.read_card_req(15), pre + [S.abort(c)])
            sc.exp_results.append("Err:NoCard" if c == 0x6c else ("Err:Msg:" + msg_text("Unhandled error: " + known[c])) if c in known else "Err:Msg:Unknown_error_code:_0x%X" % c)
            add(sc, "read-card")
            # begin (reservation)
            sc = cc.Scenario(S).start(); cfg = sc.cfg
            sc.ops.append("begin:41"); sc.exchange(S.reservation(cfg["cur"], cfg["amount"], "A"), pre + [S.abort(c)])
            sc.exp_results.append("Err:NeedsPin" if c == 0xfc else "Err:Zvt:Aborted:%d" % c if c in known else "Err:Msg:Unknown_error_code:_0x%X" % c)
            add(sc, "reservation")
            # commit (partial reversal), cancel (pre-auth reversal), and the clean-up chain behind them
            for variant in ("commit", "cancel", "commit-eod", "cancel-pending-reversal", "cancel-eod", "commit-pending-query", "cancel-pending-query"):
                sc = cc.Scenario(S).start(); cfg = sc.cfg
                sc.ops.append("begin:41"); sc.exchange(S.reservation(cfg["cur"], cfg["amount"], "A"), [S.status_info({0x27: 0, 0x87: 321}), S.completion()])
                sc.exp_results.append("Ok")
                err = "Err:Zvt:Aborted:%d" % c
                if variant == "commit":
                    sc.ops.append("commit:41:100"); sc.exchange(S.partial_reversal(321, cfg["cur"], cfg["amount"] - 100, "A"), pre + [S.pr_abort(c)])
                    sc.exp_results.append(err)
                elif variant == "cancel":
                    sc.ops.append("cancel:41"); sc.exchange(S.preauth_reversal(cfg["cur"], 321), pre + [S.pr_abort(c)])
                    sc.exp_results.append(err)
                elif variant == "commit-eod":
                    sc.ops.append("commit:41:100")
                    sc.exchange(S.partial_reversal(321, cfg["cur"], cfg["amount"] - 100, "A"), [S.status_info({0x27: 0, 0x04: 5}), S.completion()])
                    sc.exchange(S.pending_query(), [S.pr_abort(0xb8, 0xFFFF)])
                    sc.exchange(S.end_of_day(cfg["pw"]), pre + [S.pr_abort(c)])
                    sc.exp_results.append("Ok:tid=-,amount=5,trace=-,date=-,time=-" if c == 0xa0 else err)
                elif variant in ("commit-pending-query", "cancel-pending-query"):
                    # the query for a dangling pre-authorisation itself: its answer carries 0xB8 by protocol; any other code aborts it
                    if variant.startswith("commit"):
                        sc.ops.append("commit:41:100")
                        sc.exchange(S.partial_reversal(321, cfg["cur"], cfg["amount"] - 100, "A"), [S.status_info({0x27: 0, 0x04: 5}), S.completion()])
                        ok = "Ok:tid=-,amount=5,trace=-,date=-,time=-"
                    else:
                        sc.ops.append("cancel:41"); sc.exchange(S.preauth_reversal(cfg["cur"], 321), [S.completion()])
                        ok = "Ok"
                    sc.exchange(S.pending_query(), pre + ([S.pr_abort(c, rng.choice([None, 0xFFFF]))] if c != 0xb8 else [S.pr_abort(0xb8, 0xFFFF)]))
                    if c == 0xb8:
                        sc.exchange(S.end_of_day(cfg["pw"]), [S.completion()])
                        sc.exp_results.append(ok)
                    else:
                        sc.exp_results.append(err)
                elif variant == "cancel-pending-reversal":
                    sc.ops.append("cancel:41"); sc.exchange(S.preauth_reversal(cfg["cur"], 321), [S.completion()])
                    sc.exchange(S.pending_query(), [S.pr_abort(0xb8, 555)])
                    sc.exchange(S.preauth_reversal(cfg["cur"], 555), pre + [S.pr_abort(c)])
                    sc.exp_results.append(err)
                else:
                    sc.ops.append("cancel:41"); sc.exchange(S.preauth_reversal(cfg["cur"], 321), [S.completion()])
                    sc.exchange(S.pending_query(), [S.pr_abort(0xb8)])
                    sc.exchange(S.end_of_day(cfg["pw"]), pre + [S.pr_abort(c)])
                    sc.exp_results.append("Ok" if c == 0xa0 else err)
                add(sc, variant)
            # configure: system info, set terminal id, initialisation, end of day
            for stage in ("sysinfo", "set-terminal-id", "initialisation", "pending-query", "end-of-day"):
                sc = cc.Scenario(S).start(); cfg = sc.cfg
                sc.ops.append("configure")
                err = "Err:Zvt:Aborted:%d" % c
                if stage == "sysinfo":
                    sc.exchange(S.sysinfo_req(), [S.abort(c)]); sc.exp_results.append(err)
                else:
                    sc.exchange(S.sysinfo_req(), [S.sysinfo(cfg["serial"], "00000001")])
                    if stage == "set-terminal-id":
                        sc.exchange(S.set_terminal_id(cfg["pw"], int(cfg["tid"])), [S.abort(c)]); sc.exp_results.append(err)
                    else:
                        sc.exchange(S.set_terminal_id(cfg["pw"], int(cfg["tid"])), [S.completion()])
                        if stage == "initialisation":
                            sc.exchange(S.initialization(cfg["pw"]), pre + [S.abort(c)]); sc.exp_results.append(err)
                        elif stage == "pending-query":
                            sc.exchange(S.initialization(cfg["pw"]), [S.completion()])
                            if c == 0xb8:
                                sc.exchange(S.pending_query(), pre + [S.pr_abort(0xb8, 0xFFFF)])
                                sc.exchange(S.end_of_day(cfg["pw"]), [S.completion()]); sc.exp_results.append("Ok")
                            else:
                                sc.exchange(S.pending_query(), pre + [S.pr_abort(c, rng.choice([None, 0xFFFF, 77]))]); sc.exp_results.append(err)
                        else:
                            sc.exchange(S.initialization(cfg["pw"]), [S.completion()])
                            sc.exchange(S.pending_query(), [S.pr_abort(0xb8, 0xFFFF)])
                            sc.exchange(S.end_of_day(cfg["pw"]), pre + [S.pr_abort(c)])
                            sc.exp_results.append("Ok" if c == 0xa0 else err)
                add(sc, "configure/" + stage)
    cases, mo, io = run_scenarios(run, scs, "c20")
    diffs = judge(run, scs, cases, mo, io,
                  "an abort with result code c makes the operation fail with an error identifying c (numeric code, or for card reading the message of c); "
                  "exceptions: 0x6C while reading a card = no card, 0xFC during a reservation = PIN required, 0xA0 at end-of-day tolerated")
    run.coverage["result_codes"] = 256
    run.coverage["operations"] = sorted(set(labels))
    run.coverage["exhaustive"] = True
    run.nontrivial = {str(x) for x in run.nontrivial}
    run.sample({"case": cases[100][:400], "impl": io[100][:300]})
    report_diffs(run, diffs, "coq/Client.v (handlers)", "zvt_feig_terminal::feig", "client")
    vlib.prefer_concrete(run)
    return vlib.finish(run, trusted_base=TB, assumptions=["the dangling-pre-authorisation query is answered with an abort-class packet carrying 0xB8 by protocol design; any other code aborts the query (since the fix of F11)",
                                                           "Feig::new discards the outcome of its initial configure() (observation O10); the property is decided for configure itself"])


def replay(path):
    from ..common import impl_only
    return impl_only("harness_client", "zvt_verif_harness_client", path)
