"""C19 — going idle triggers clean-up; end-of-day never runs over open transactions."""
import itertools
from .. import vlib, client_cases as cc
from ..common import proof_part, report_diffs
from .c07 import TB, run_scenarios, judge


def plan(S, hist, rng, pending, eod, bare_commit=False):
    """history over two tokens with max = 2; every commit/cancel is completed by the terminal; when the map
    becomes empty the expected chain is: pending query, reversal of what it reports, end-of-day"""
    sc = cc.Scenario(S, {"max": 2}).start()
    cfg = sc.cfg
    open_, nxt = {}, [rng.choice([0, 9999, rng.randrange(0, 10000)])]
    for op, tok in hist:
        th = tok.encode().hex()
        if op == "begin":
            sc.ops.append("begin:" + th)
            if len(open_) == 2:
                sc.exp_results.append("Err:Active:max")
            elif tok in open_:
                sc.exp_results.append("Err:Active:inuse")
            else:
                r = nxt[0]; nxt[0] = (nxt[0] + 1) % 10000
                sc.exchange(S.reservation(cfg["cur"], cfg["amount"], tok), [S.status_info({0x27: 0, 0x87: r}), S.completion()])
                open_[tok] = r
                sc.exp_results.append("Ok")
            continue
        if tok not in open_:
            sc.ops.append(("commit:%s:5" % th) if op == "commit" else "cancel:" + th)
            sc.exp_results.append("Err:UnknownToken")
            continue
        r = open_.pop(tok)
        if op == "commit":
            sc.ops.append("commit:%s:5" % th)
            if bare_commit and rng.random() < 0.5:
                # the terminal completes the commit without any status information: the call is incomplete for the caller,
                # but the terminal DID complete it — going idle still triggers the clean-up (round-3 seeded change)
                sc.exchange(S.partial_reversal(r, cfg["cur"], cfg["amount"] - 5, tok), [S.intermediate(), S.completion()])
                ok = "Err:Zvt:IncompleteData"
            else:
                sc.exchange(S.partial_reversal(r, cfg["cur"], cfg["amount"] - 5, tok), [S.status_info({0x27: 0, 0x04: 5}), S.completion()])
                ok = "Ok:tid=-,amount=5,trace=-,date=-,time=-"
        else:
            sc.ops.append("cancel:" + th)
            sc.exchange(S.preauth_reversal(cfg["cur"], r), [S.completion()])
            ok = "Ok"
        if open_:
            sc.exp_results.append(ok)              # still busy: nothing more may be requested
            continue
        # idle: the clean-up chain, at once
        sc.exchange(S.pending_query(), [S.pr_abort(0xb8, 0xFFFF if pending is None else pending)] if pending != "bare" else [S.pr_abort(0xb8)])
        res = ok
        if pending not in (None, "bare"):
            if pending == "rev-abort":
                pass
            sc.exchange(S.preauth_reversal(cfg["cur"], pending), [S.completion()])
        deco = [S.status_info({0x27: 0, 0x04: 12345})] if rng.random() < 0.5 else []     # the totals of the batch may precede either outcome
        if eod == "completion":
            sc.exchange(S.end_of_day(cfg["pw"]), deco + [S.intermediate(), S.print_line(), S.completion()])
        else:
            sc.exchange(S.end_of_day(cfg["pw"]), deco + [S.pr_abort(eod)])
            if eod != 0xa0:
                res = "Err:Zvt:Aborted:%d" % eod
        sc.exp_results.append(res)
    return sc


def check(run):
    proof_part(run, "C19")
    rng, th = run.rng, run.tier == "thorough"
    S = cc.Spec()
    toks = ["A", "B"]
    alphabet = [(o, t) for o in ("begin", "commit", "cancel") for t in toks]
    hists = []
    for d in range(1, 5 if th else 4):
        hists += list(itertools.product(alphabet, repeat=d))
    hists += [tuple(rng.choice(alphabet) for _ in range(rng.randrange(5, 25))) for _ in range(300 if th else 60)]
    scs = []
    eods = ["completion", 0xa0] + ([c for c in range(256) if c != 0xa0] if th else rng.sample(range(256), 6))
    for h in hists:
        # dangling receipt numbers: none, a reply without the field, a random one, and the ends of the 4-digit range
        for pending in (None, "bare", rng.randrange(1, 10000), rng.choice([1, 9999, 9998, 0])):
            eod = rng.choice(eods) if len(h) > 2 else None
            for e in ([eod] if eod is not None else eods):
                scs.append(plan(S, h, rng, pending, e))
                if any(o == "commit" for o, _ in h) and (len(h) <= 2 or rng.random() < 0.3):
                    scs.append(plan(S, h, rng, pending, e, bare_commit=True))
    # EVERY end-of-day outcome (completion, each of the 256 abort codes) in both tiers, for the shortest histories that go idle by a
    # commit and by a cancel, without and with a dangling pre-authorisation: only 0xA0 is tolerated
    for h in ((("begin", "A"), ("commit", "A")), (("begin", "A"), ("cancel", "A"))):
        for pending in (None, 4711):
            for c in range(256):
                scs.append(plan(S, h, rng, pending, c))
    cases, mo, io = run_scenarios(run, scs, "c19")
    diffs = judge(run, scs, cases, mo, io,
                  "a completed commit/cancel that leaves no transaction open is followed at once by the pending query, the reversal of the reported "
                  "pre-authorisation and end-of-day (0xA0 tolerated, any other refusal reported); while transactions are open, no end-of-day and no pending query")
    run.coverage["end_of_day_outcomes"] = len(eods)
    run.nontrivial = {str(x) for x in run.nontrivial}
    run.sample({"case": cases[-1][:500], "impl": io[-1][:500]})
    report_diffs(run, diffs, "coq/Client.v", "zvt_feig_terminal::feig", "client")
    vlib.prefer_concrete(run)
    return vlib.finish(run, trusted_base=TB, assumptions=["the exact request order is decided by the byte-exact per-connection write log of the real client against the expected chain"])


def replay(path):
    from ..common import impl_only
    return impl_only("harness_client", "zvt_verif_harness_client", path)
