"""C03 — shipped packets use the wire layout the ZVT/Feig specification assigns."""
from .. import vlib, layouts, spec, codec_cases as cc
from ..common import proof_part, report_diffs

TB = ["Coq 8.16.1 kernel; no axioms", "zvt2coq translator (layouts regenerated)",
      "coq/spec/SpecLayouts.v: hand transcription of the ZVT bitmap / TLV tables and the Feig manual (entries marked C lean on the crate's docs)",
      "extraction + ocaml/driver.ml", "harness/src/bin/codec.rs",
      "tools/layouts.py reference encoder interpreting the SPEC layout (read back from Coq via spec/SpecDump.v)"]


def addr(fields):
    out, i = [], 0
    for f in fields:
        if f["tag"] is None:
            out.append(("pos", i)); i += 1
        else:
            out.append(("tag", f["tag"]))
    return out


def match_fields(spec_fields, gen_fields):
    """for each generated field (Rust declaration order) the index of the specification field that the
    specification means by it: same role name if the specification knows the name, else same address"""
    sa, ga = addr(spec_fields), addr(gen_fields)
    names = {f["name"]: i for i, f in enumerate(spec_fields)}
    out = []
    for g, a in zip(gen_fields, ga):
        if g["name"] in names:
            out.append(names[g["name"]])
        elif a in sa:
            out.append(sa.index(a))
        else:
            out.append(None)
    return out


def reorder(spec_fields, gen_fields, v):
    """the specification value re-expressed in Rust declaration order (recursively)"""
    m = match_fields(spec_fields, gen_fields)
    vals = []
    for g, j in zip(gen_fields, m):
        if j is None:
            return None
        vals.append(reorder_ty(spec_fields[j]["ty"], g["ty"], v[1][j]))
    if any(x == "MISMATCH" for x in vals) or len(set(j for j in m)) != len(m) or len(m) != len(spec_fields):
        return None
    return ("rec", vals)


def reorder_ty(st, gt, x):
    if st["k"] != gt["k"]:
        return "MISMATCH"
    if st["k"] == "opt":
        return None if x is None else ("some", reorder_ty(st["t"], gt["t"], x[1]))
    if st["k"] == "vec":
        return [reorder_ty(st["t"], gt["t"], y) for y in x]
    if st["k"] == "struct":
        r = reorder(st["fields"], gt["fields"], x)
        return "MISMATCH" if r is None else r
    return x


def spec_bytes(sp, gen, v):
    """bytes assembled from the SPEC descriptors; tagged groups in the Rust declaration order of their
    numbers (the order of bitmaps is not part of the specification) so that re-encoding is comparable"""
    return enc_fields_in_gen_order(sp["fields"], gen["fields"], v)


def enc_fields_in_gen_order(sf, gf, v):
    pos = b"".join(enc_one(f, None, x) for f, x in zip(sf, v[1]) if f["tag"] is None)
    order = [g["tag"] for g in gf if g["tag"] is not None]
    tagged = [(f, x) for f, x in zip(sf, v[1]) if f["tag"] is not None]
    tagged.sort(key=lambda fx: order.index(fx[0]["tag"]) if fx[0]["tag"] in order else 10 ** 6)
    gmap = {g["tag"]: g for g in gf if g["tag"] is not None}
    gpos = [g for g in gf if g["tag"] is None]
    return pos + b"".join(enc_one(f, gmap.get(f["tag"]), x) for f, x in tagged)


def enc_one(f, g, x):
    """like layouts.enc_field but nested structs keep following the generated order"""
    def go(ty, gty, y):
        k = ty["k"]
        if k == "opt":
            return b"" if y is None else go(ty["t"], gty["t"] if gty and gty["k"] == "opt" else None, y[1])
        if k == "vec":
            return b"".join(go(ty["t"], gty["t"] if gty and gty["k"] == "vec" else None, z) for z in y)
        if k == "prim":
            if ty["p"] == "Bytes" and len(y[1]) == 0:
                return b""
            payload = layouts.prim_payload(f["encoding"], ty["p"], y)
        else:
            payload = enc_fields_in_gen_order(ty["fields"], gty["fields"] if gty and gty["k"] == "struct" else ty["fields"], y)
        t = b"" if f["tag"] is None else layouts.tag_bytes(f["tag"])
        return t + layouts.place(f, ty, payload)
    return go(f["ty"], g["ty"] if g else None, x)


def check(run):
    pr = proof_part(run, "C03")
    L = layouts.load()
    SP = spec.layouts()
    G = {s["name"]: s for s in L["structs"]}
    rng, th = run.rng, run.tier == "thorough"
    drv = vlib.ocaml_build()
    codec = vlib.harness_build("harness", ["codec"])["codec"]
    cases, expect = [], []
    weak = 0
    unmatched = []
    sized = {}
    for name, sp in SP.items():
        gen = G.get(name)
        if gen is None:
            unmatched.append(name)
            continue
        for k in range(600 if th else 120):
            v, _ = layouts.gen_struct_value(rng, sp, big=(k % 30 == 0))
            if k < len(sp["fields"]) * 2:
                # single-field values: only field k//2 set (where that is representable)
                pass
            try:
                body = spec_bytes(sp, gen, v)
            except ValueError:
                continue
            b = body if sp["control"] is None else bytes(sp["control"]) + layouts.len_prefix("LAdpu", len(body)) + body
            want_v = reorder(sp["fields"], gen["fields"], v)
            if want_v is None:
                run.violation(kind="obligation", case="dec\t%s\t%s" % (name, b.hex()), expected="a Rust field for every specified field of " + name,
                              observed="fields do not correspond (by role name or by number)", how_found="obligation-search",
                              detail="layout of %s differs structurally from the specification" % name)
                break
            cases.append("dec\t%s\t%s" % (name, layouts.hexs(b)))
            expect.append("Ok %s rem=- re=%s" % (layouts.show(want_v), layouts.hexs(b)))
        # bodies of exactly the sizes at which the APDU length changes its form (254 | 255 | 256) and containers at the
        # BER-TLV switches: one free text / byte payload of the value is resized until the body has that size
        if sp["control"] is not None:
            for target in (126, 127, 128, 129, 253, 254, 255, 256, 257, 258) + ((510, 511, 512, 999, 1000, 1001) if th else ()):
                for _try in range(3):
                    v, _ = layouts.gen_struct_value(rng, sp, big=False, absent_pos=False)
                    if not layouts.resize_to(rng, sp["fields"], v, lambda x: len(spec_bytes(sp, gen, x)), target):
                        continue
                    body = spec_bytes(sp, gen, v)
                    b = bytes(sp["control"]) + layouts.len_prefix("LAdpu", len(body)) + body
                    want_v = reorder(sp["fields"], gen["fields"], v)
                    if want_v is None:
                        break
                    cases.append("dec\t%s\t%s" % (name, layouts.hexs(b)))
                    expect.append("Ok %s rem=- re=%s" % (layouts.show(want_v), layouts.hexs(b)))
                    sized[target] = sized.get(target, 0) + 1
                    break
    mo = vlib.run_sharded(drv, cases, run.workdir, "c03_model")
    io = vlib.run_sharded(codec, cases, run.workdir, "c03_impl")
    diffs = []
    per_type_fail = {}
    for c, m, i, e in zip(cases, mo, io, expect):
        if m != i:
            diffs.append((c, m, i))
        if i != e:
            t = c.split("\t")[1]
            per_type_fail[t] = per_type_fail.get(t, 0) + 1
            if per_type_fail[t] <= 2:
                run.violation(kind="input", case=c, expected=e[:500], observed=i[:500], how_found="oracle",
                              detail="bytes assembled from the specification layout must decode into exactly the named fields and re-encode identically")
        else:
            run.nontrivial.add(hash(c))
    run.evaluations += len(cases)
    run.coverage["spec_packets"] = len(SP)
    run.coverage["bodies_of_exact_size"] = {str(k): n for k, n in sorted(sized.items())}
    run.coverage["spec_entries_without_generated_struct"] = unmatched
    run.nontrivial = {str(x) for x in run.nontrivial}
    for k in (0, len(cases) // 2, len(cases) - 1):
        run.sample({"case": cases[k][:200], "expected": expect[k][:200], "impl": io[k][:200]})
    report_diffs(run, diffs, "coq/Codec.v", "the codec generated by zvt_derive", "codec")
    vlib.prefer_concrete(run)
    return vlib.finish(run, trusted_base=TB,
                       assumptions=["the specification tables are my transcription (documents not available offline)",
                                    "the order of bitmaps on the wire is not part of the specification"])


def replay(path):
    from ..common import impl_only
    return impl_only("harness", "codec", path)
