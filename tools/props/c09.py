"""C09 — a connection that saw a failure is never reused; fresh ones are vetted."""
from .. import vlib, client_cases as cc
from ..common import proof_part, report_diffs
from .c07 import TB, run_scenarios, judge


def histories(S, rng):
    hs = []
    h = cc.History(S); h.read_card(); h.read_card("000000000000081ca72f"); hs.append(h)
    h = cc.History(S); h.begin("A", 1234); h.commit("A", 1234, 1000); h.read_card(); hs.append(h)
    h = cc.History(S); h.begin("A", 17); h.begin("B", 18); h.cancel("A", 17, idle=False); h.cancel("B", 18); hs.append(h)
    h = cc.History(S); h.configure(); h.read_card(); hs.append(h)
    h = cc.History(S, {"cur": 826, "pw": 1, "rct": 3}); h.begin("tok", 9999); h.commit("tok", 9999, 10 ** 15); h.begin("tok", 1); hs.append(h)
    return hs


def check(run):
    proof_part(run, "C09")
    rng, th = run.rng, run.tier == "thorough"
    S = cc.Spec()
    scs, kinds = [], {}
    for h in histories(S, rng):
        scs.append(h.build())                                                 # fault free: one connection serves everything
        kinds["none"] = kinds.get("none", 0) + 1
        for j, e in enumerate(h.exchanges):
            for pos in range(0, len(e.replies) + 1):
                for kind in ("close", "silence", "garbage", "nack", "truncated"):
                    if kind == "nack" and pos != 0:
                        continue
                    scs.append(h.build((j, pos, kind)))
                    kinds[kind] = kinds.get(kind, 0) + 1
                if pos == 0 or th:
                    for serial in ("DEADBEEF", "17fd1e3c", "17FD1E3"):       # wrong / same up to case / prefix
                        scs.append(h.build((j, pos, "close"), reconnect_serial=serial))
                        kinds["serial:" + serial] = kinds.get("serial:" + serial, 0) + 1
    # multi-fault sequences, faults inside reconnect handshakes included (thorough: many; quick: a few)
    multi = 0
    for h in histories(S, rng):
        for _ in range(1500 if th else 6):
            nf = rng.choice([2, 2, 3, 4])
            faults = []
            for _ in range(nf):
                j = rng.randrange(len(h.exchanges))
                e = h.exchanges[j]
                faults.append((j, rng.randrange(0, len(e.replies) + 1), rng.choice(cc.History.FAULT_KINDS)))
            faults.sort(key=lambda f: f[0])
            hs = [((rng.randrange(2), rng.randrange(2), rng.choice(cc.History.FAULT_KINDS)) if rng.random() < 0.35 else None)
                  for _ in range(nf + 3)]
            hs = [(st, 0 if k == "nack" else p, k) if f is not None else None for f in hs for (st, p, k) in [f or (0, 0, "")]]
            scs.append(h.build_multi(faults, hs))
            multi += 1
            kinds["multi"] = kinds.get("multi", 0) + 1
    # an UNEXPECTED reply: decodable, a member of the exchange's reply set, but not what this exchange may be answered with — the
    # query for a dangling pre-authorisation answered by a completion / a status information (the client's UnexpectedPacket).
    # The exchange ends there; whatever the terminal still sends must not be read as the replies to the next command: the next
    # operation runs on a NEW connection.
    # (progress reports — intermediate status, print lines — in front of the answer are passed over since the fix of F17: C20)
    for unwanted, tail_packets in ((S.completion(), []), (S.status_info({0x27: 0}), [S.completion()]),
                                   (S.status_info({0x27: 0, 0x87: 17}), [S.intermediate(), S.pr_abort(0xb8, 0xFFFF)])):
        for first_op in ("configure", "cancel"):
            sc = cc.Scenario(S, {"max": 2}).start(); cfg = sc.cfg
            if first_op == "configure":
                sc.ops.append("configure")
                sc.exchange(S.sysinfo_req(), [S.sysinfo(cfg["serial"], cfg["tid"])])
                sc.exchange(S.initialization(cfg["pw"]), [S.completion()])
            else:
                sc.ops.append("begin:41"); sc.exchange(S.reservation(cfg["cur"], cfg["amount"], "A"), [S.status_info({0x27: 0, 0x87: 321}), S.completion()])
                sc.exp_results.append("Ok")
                sc.ops.append("cancel:41"); sc.exchange(S.preauth_reversal(cfg["cur"], 321), [S.completion()])
            sc.exchange(S.pending_query(), [unwanted])
            sc.feed(*tail_packets)                       # what the terminal goes on to send: nobody may read it as a reply
            sc.exp_results.append("Err:UnexpectedPacket")
            sc.ops.append("read_card")
            sc.new_conn()
            sc.handshake()
            sc.exchange(S.read_card_req(cfg["rct"]), [S.status_info({0x27: 0, 0x06: {"uuid": "04a1b2c3d4e5f6"}})])
            sc.exp_results.append("Ok:Member:04A1B2C3D4E5F6")
            scs.append(sc)
            kinds["unwanted-reply"] = kinds.get("unwanted-reply", 0) + 1
    # a different serial number reported OUTSIDE the handshake: configure() asks for the system information again (the same
    # 0F A1 query); a terminal that now reports another serial is not used for any further command — the next operation
    # reconnects and vets the connection anew
    for serial in ("DEADBEEF", "17FD1E3", "27FD1E3C"):
        sc = cc.Scenario(S, {"max": 2}).start(); cfg = sc.cfg
        sc.ops.append("configure")
        sc.exchange(S.sysinfo_req(), [S.sysinfo(serial, "00000001")])
        sc.exp_results.append("Err:Io:NotConnected")
        sc.ops.append("read_card")
        sc.new_conn()
        sc.handshake()
        sc.exchange(S.read_card_req(cfg["rct"]), [S.status_info({0x27: 0, 0x06: {"uuid": "04a1b2c3d4e5f6"}})])
        sc.exp_results.append("Ok:Member:04A1B2C3D4E5F6")
        scs.append(sc)
        kinds["serial-in-configure"] = kinds.get("serial-in-configure", 0) + 1
    # ... while the SAME serial in another spelling (case) is the same terminal: configure() goes through on the connection in
    # use and the next operation reuses it (no reconnect)
    for spell in (str.lower, str.upper, str.swapcase):
        sc = cc.Scenario(S, {"max": 2}).start(); cfg = sc.cfg
        sc.ops.append("configure")
        sc.exchange(S.sysinfo_req(), [S.sysinfo(spell(cfg["serial"]), cfg["tid"])])
        sc.exchange(S.initialization(cfg["pw"]), [S.completion()])
        sc.exchange(S.pending_query(), [S.pr_abort(0xb8, 0xFFFF)])
        sc.exchange(S.end_of_day(cfg["pw"]), [S.completion()])
        sc.exp_results.append("Ok")
        sc.ops.append("read_card")
        sc.exchange(S.read_card_req(cfg["rct"]), [S.status_info({0x27: 0, 0x06: {"uuid": "04a1b2c3d4e5f6"}})])
        sc.exp_results.append("Ok:Member:04A1B2C3D4E5F6")
        scs.append(sc)
        kinds["same-serial-other-case-in-configure"] = kinds.get("same-serial-other-case-in-configure", 0) + 1
    # the identity query of a handshake answered by an ABORT (or the registration refused): that connection is never used for a
    # command; the attempt counts as failed and the next one starts over on a new connection
    for which in ("identity", "registration"):
        for code in (0x6f, 0x64, 0xb8):
            sc = cc.Scenario(S, {"max": 2}); cfg = sc.cfg
            if which == "identity":
                sc.exchange(S.registration(cfg["pw"], cfg["cur"]), [S.completion()])
                sc.exchange(S.sysinfo_req(), [S.abort(code)])
            else:
                # an abort is not a member of the registration's reply set: it is not acknowledged, the attempt fails
                sc.expect_write(S.registration(cfg["pw"], cfg["cur"])); sc.feed(cc.ACK); sc.feed(S.abort(code))
            sc.new_conn()
            sc.start()
            sc.ops.append("read_card")
            sc.exchange(S.read_card_req(cfg["rct"]), [S.status_info({0x27: 0, 0x06: {"uuid": "04a1b2c3d4e5f6"}})])
            sc.exp_results.append("Ok:Member:04A1B2C3D4E5F6")
            scs.append(sc)
            kinds["handshake-aborted:" + which] = kinds.get("handshake-aborted:" + which, 0) + 1
    # several clients in ONE process, configured with DIFFERENT serial numbers (the harness runs its cases one after the other in
    # one process): each client vets its connections against ITS OWN configured serial — a terminal that reports the serial an
    # earlier client was configured with is the wrong device for this one
    for mine, reported in (("AB12CD34", "AB12CD34"), ("AB12CD34", cc.SERIAL), ("00000001", "00000001"), ("00000001", "AB12CD34"),
                           (cc.SERIAL, "AB12CD34"), (cc.SERIAL, cc.SERIAL)):
        sc = cc.Scenario(S, {"serial": mine, "max": 2})
        cfg = sc.cfg
        if mine.lower() == reported.lower():
            sc.start()
            sc.ops.append("read_card")
            sc.exchange(S.read_card_req(cfg["rct"]), [S.status_info({0x27: 0, 0x06: {"uuid": "04a1b2c3d4e5f6"}})])
            sc.exp_results.append("Ok:Member:04A1B2C3D4E5F6")
        else:
            # every connection offered belongs to the other terminal: registration and identity query, never a command
            for k in range(3):
                if k:
                    sc.new_conn()
                sc.handshake(reported)
            sc.wrong_serial_conn = 0
            sc.ops.append("read_card")
            sc.exp_results.append(None)
        scs.append(sc)
        kinds["other-configured-serial"] = kinds.get("other-configured-serial", 0) + 1
    cases, mo, io = run_scenarios(run, scs, "c09")
    diffs = judge(run, scs, cases, mo, io,
                  "after a failed exchange (close, garbage, NACK, silence, truncated packet) nothing more is written to that connection; the retry runs on a NEW "
                  "connection that starts with registration (configured password, 0xDE, currency) and the identity check; a connection whose terminal reports a "
                  "different serial is never used for commands; an exchange that completes normally keeps the connection")
    # model-free predicates on the implementation's log, in addition to the exact expectations above
    for sc, c, i in zip(scs, cases, io):
        p = cc.parse_output(i)
        if not p:
            continue
        res, ev, T = p
        opened, dropped = {}, {}
        reg = S.registration(sc.cfg["pw"], sc.cfg["cur"]).hex()
        first = {}
        for k, cid, t, hx in ev:
            if k == "O":
                opened[cid] = t
            elif k == "D":
                dropped[cid] = t
            elif k == "W":
                first.setdefault(cid, []).append(hx)
                if cid in dropped:
                    run.violation(kind="fault_sequence", case=c[:3000], expected="no write to connection %d after it was dropped" % cid,
                                  observed=i[:2000], how_found="oracle")
        for cid, ws in first.items():
            if ws[0] != reg or (len(ws) > 2 and ws[2] != S.sysinfo_req().hex()):
                run.violation(kind="fault_sequence", case=c[:3000], expected="connection %d starts with registration %s then the identity check" % (cid, reg),
                              observed=i[:2000], how_found="oracle")
        wrong = getattr(sc, "wrong_serial_conn", None)
        if wrong is not None and len(first.get(wrong, [])) > 4:
            run.violation(kind="fault_sequence", case=c[:3000], expected="no command on the connection whose terminal reported a different serial",
                          observed=i[:2000], how_found="oracle")
    run.coverage["fault_kinds"] = kinds
    run.nontrivial = {str(x) for x in run.nontrivial}
    run.sample({"case": cases[3][:500], "impl": io[3][:600]})
    report_diffs(run, diffs, "coq/Client.v (retry_next, connect)", "zvt_feig_terminal::stream", "client")
    vlib.prefer_concrete(run)
    return vlib.finish(run, trusted_base=TB, assumptions=["partial: an in-memory connector stands for TCP; ASCII serials",
                                                           "a foreign consumer of the public ResetSequence trait that stops polling at an Err keeps the connection (observation O8); the client's own loops always poll again"])


def replay(path):
    from ..common import impl_only
    return impl_only("harness_client", "zvt_verif_harness_client", path)
