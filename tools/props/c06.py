"""C06 — a failed exchange yields exactly one error, then silence."""
import itertools
from .. import vlib, layouts, spec, seq_cases as sc
from ..common import proof_part, report_diffs
from .c05 import TB


def check(run):
    proof_part(run, "C06")
    L = layouts.load()
    rng, th = run.rng, run.tier == "thorough"
    drv = vlib.ocaml_build()
    bins = vlib.harness_build("harness", ["seq", "codec"])
    seqb, codec = bins["seq"], bins["codec"]
    depth = 4 if th else 3
    # candidate undecodable frames, classified by the implementation's own reply parser
    qs = [sc.Seq(L, s) for s in L["sequences"]]
    qs = [q for q in qs if q.spec is not None]
    cand, cand_meta = [], []
    for qi, q in enumerate(qs):
        known = {tuple(st["control"]) for _, st in q.variants}
        for _ in range(6):
            k = rng.randrange(len(q.variants))
            c, i = q.variants[k][1]["control"]
            for body in (bytes([0x06, 0x05, 0x01]), bytes([0x06]), bytes([0x27]), bytes([0x1f]), bytes(rng.randrange(256) for _ in range(rng.randrange(1, 9))),
                         bytes([0x06, 0x82, 0x01]), bytes([0x04, 0x00])):
                f = bytes([c, i, len(body)]) + body
                cand.append("enum\t%s\t%s" % (q.enum["name"], f.hex())); cand_meta.append((qi, f, "malformed body"))
        for cf in [(0x84, rng.randrange(256)), (0x04, 0x01), (0x06, 0x0f), (0x80, 0x00), (0x06, 0x1e), (0x04, 0x0f), (0x06, 0xd1), (rng.randrange(256), rng.randrange(256))]:
            if cf not in known:
                body = bytes(rng.randrange(256) for _ in range(rng.choice([0, 0, 2])))
                f = bytes([cf[0], cf[1], len(body)]) + body
                cand.append("enum\t%s\t%s" % (q.enum["name"], f.hex())); cand_meta.append((qi, f, "control field outside the reply set"))
    outs = vlib.run_sharded(codec, cand, run.workdir, "c06_classify")
    bad = {}
    for (qi, f, kind), o in zip(cand_meta, outs):
        if o.startswith("Err "):
            bad.setdefault(qi, []).append((f, kind))
    cases, expect, meta = [], [], []
    for qi, q in enumerate(qs):
        nv = len(q.variants)
        nonfinal = [k for k in range(nv) if not q.is_final(k)]
        prefixes = [()]
        single = not nonfinal
        for d in range(1, depth + 1):
            prefixes += list(itertools.product(nonfinal, repeat=d)) if nonfinal else []
        if len(prefixes) > 150:
            prefixes = prefixes[:60] + rng.sample(prefixes[60:], 90)
        for t in prefixes:
            cmd = q.gen_input(rng)
            replies = [q.gen_reply(rng, k) for k in t]
            good = b"".join(f for f, _ in replies)
            junk = bytes(rng.randrange(256) for _ in range(rng.choice([0, 2, 5])))
            # faults in place of the acknowledgement (only with the empty prefix)
            if not t:
                for f, kind in [(bytes([0x84, rng.randrange(256), 0]), "NACK in place of the acknowledgement"),
                                (bytes([0x06, 0x0f, 0]), "a completion in place of the acknowledgement"),
                                (bytes([0x80, 0x01, 0]), "80 01 in place of the acknowledgement")]:
                    cases.append("seq\t%s\t%s\t%s" % (q.name, cmd.hex(), (f + junk).hex()))
                    expect.append(sc.expected_trace(cmd, b"", [], ("frame", f), junk)); meta.append((q.short, t, kind))
                for cut in (0, 1, 2):
                    cases.append("seq\t%s\t%s\t%s" % (q.name, cmd.hex(), sc.ACK[:cut].hex() or "-"))
                    expect.append(sc.expected_trace(cmd, b"", [], ("trunc", sc.ACK[:cut]), b"")); meta.append((q.short, t, "stream ends inside / before the acknowledgement"))
            # faults at the next reply position
            pool = bad.get(qi, [])
            by_kind = {}
            for f, kind in pool:
                by_kind.setdefault(kind, []).append((f, kind))
            chosen = []
            for kind, l in by_kind.items():
                chosen += rng.sample(l, min(len(l), 6 if th else 3))
            for f, kind in chosen:
                cases.append("seq\t%s\t%s\t%s" % (q.name, cmd.hex(), (sc.ACK + good + f + junk).hex()))
                expect.append(sc.expected_trace(cmd, sc.ACK, replies, ("frame", f), junk)); meta.append((q.short, t, kind))
            # truncated packet / end of stream
            k = rng.randrange(nv)
            fr, _ = q.gen_reply(rng, k)
            for cut in sorted({0, 1, 2, len(fr) - 1, rng.randrange(len(fr))}):
                part = fr[:cut]
                cases.append("seq\t%s\t%s\t%s" % (q.name, cmd.hex(), (sc.ACK + good + part).hex()))
                expect.append(sc.expected_trace(cmd, sc.ACK, replies, ("trunc", part), b""))
                meta.append((q.short, t, "end of stream" if cut == 0 else "truncated packet"))
            # a LONG reply (extended length form) cut inside / right behind its 5-byte header: 256 has a zero low length byte
            if not t or rng.random() < 0.1:
                from .c01 import hit_body_length
                done = 0
                for k2 in rng.sample(range(nv), nv):
                    st = q.variants[k2][1]
                    for target in (256, 300):
                        r = hit_body_length(rng, st, target)
                        if r is None:
                            continue
                        fr2 = r[1]
                        for cut in (3, 4, 5, 6, len(fr2) - 1):
                            part = fr2[:cut]
                            cases.append("seq\t%s\t%s\t%s" % (q.name, cmd.hex(), (sc.ACK + good + part).hex()))
                            expect.append(sc.expected_trace(cmd, sc.ACK, replies, ("trunc", part), b""))
                            meta.append((q.short, t, "truncated long packet (extended length header)"))
                        done += 1
                    if done:
                        break
            if single:
                break
    try:
        mo = vlib.run_sharded(drv, cases, run.workdir, "c06_model")
        io = vlib.run_sharded(seqb, cases, run.workdir, "c06_impl")
    except vlib.HangFound as h:
        run.violation(kind="script", case=h.case[:3000], expected="one error, then the stream ends", observed="Hang (20 s watchdog)", how_found="oracle")
        return vlib.finish(run, trusted_base=TB)
    diffs, seen, kinds = [], set(), {}
    for c, m, i, e, (short, t, kind) in zip(cases, mo, io, expect, meta):
        kinds[kind] = kinds.get(kind, 0) + 1
        if m != i:
            diffs.append((c[:3000], m[:1500], i[:1500]))
        if i != e:
            key = (short, kind)
            if key not in seen:
                seen.add(key)
                run.violation(kind="fault_sequence", case=c[:3000], expected=e[:1500], observed=i[:1500], how_found="oracle",
                              detail="sequence %s, valid prefix %s, fault: %s — exactly one error item, nothing written after the failed read, "
                                     "nothing read beyond the faulty packet" % (short, list(t), kind))
        else:
            run.nontrivial.add((short, t, kind))
    run.evaluations += len(cases) + len(cand)
    run.coverage["fault_kinds"] = kinds
    run.coverage["valid_prefix_depth"] = depth
    run.nontrivial = {str(x) for x in run.nontrivial}
    for k in (0, len(cases) // 2, len(cases) - 1):
        run.sample({"case": cases[k][:300], "fault": meta[k][2], "model": mo[k][:300], "impl": io[k][:300]})
    report_diffs(run, diffs, "coq/Sequence.v", "the into_stream implementations", "seq")
    vlib.prefer_concrete(run)
    return vlib.finish(run, trusted_base=TB, assumptions=["'cannot be decoded' is judged by the implementation's own reply parser (C15/C02 decide that parser)",
                                                           "in-memory writes never fail; write errors are not explored"])


def replay(path):
    from ..common import impl_only
    return impl_only("harness", "seq", path)
