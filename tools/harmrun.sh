#!/bin/bash
# usage: harmrun.sh <patch>...   apply harmless patches to /repo, run all quick checks, undo
cd /verif
git -C /repo diff --quiet || { echo "/repo dirty"; exit 2; }
rm -rf .cache/evidence.bak; cp -r evidence .cache/evidence.bak
for p in "$@"; do git -C /repo apply "$p" || { echo "does not apply: $p"; git -C /repo checkout -- .; exit 2; }; done
(cd /repo && CARGO_NET_OFFLINE=true CARGO_TARGET_DIR=/tmp/zvt_harm_target cargo test --workspace --no-fail-fast --offline 2>&1 | grep -E "^test result" | awk '{p+=$4; f+=$6} END {print "baseline: "p" passed, "f" failed"}')
for p in C01 C02 C03 C04 C05 C06 C07 C08 C09 C10 C11 C12 C13 C14 C15 C16 C17 C18 C19 C20; do
  ./check $p quick 2>&1 | grep -E "^VIOLATION|^OK|^ERROR" | head -3
done
git -C /repo checkout -- .
rm -rf evidence; mv .cache/evidence.bak evidence
.cache/target/release/zvt2coq /repo /verif >/dev/null 2>&1
rm -rf /tmp/zvt_harm_target
git -C /repo status --short
