#!/usr/bin/env python3
"""Regenerates MANIFEST.json from the table below (kept in one place so it stays valid)."""
import json, os
V = os.path.dirname(os.path.dirname(os.path.abspath(__file__)))
props = [json.loads(l) for l in open(os.path.join(V, "properties.jsonl"))]

COMMON_NOTE = ("Trusted: Coq 8.16.1 kernel (full .vo build, Print Assumptions = closed under the global context), "
               "extraction with ExtrOcamlBasic only, ocaml/driver.ml, the Rust harness; the hand-written model is tied "
               "to /repo's source by the differential (correspondence) run of every check, the tables by the translator.")
CLAIMS = {
 "C07": ("Coq theorems about the model of the Feig client, for every terminal behaviour (the world w is universally quantified): the token-map invariant "
         "(no token twice, never more than the maximum) holds after every call; calls refused by the map's rules return the documented error and the "
         "world UNCHANGED (no traffic); begin changes the map only on success by exactly the new token; the consumer loops are folds of pure handlers. "
         "Tie: the real client (hook feature zvt_verif) under tokio's paused clock against a simulated terminal: all histories over begin/commit/cancel x "
         "tokens x terminal outcomes to depth 3 x max 0..3, random walks to 40; results, per-connection write logs and virtual times compared with the "
         "extracted model; oracle = the abstract token map with byte-exact expected requests.", "DESIGN.md section 6, C07"),
 "C08": ("Coq, end to end (ClientWire.v): for EVERY configuration (amount < 10^12, currency < 10^4), open map, CP437 token, final amount over all of N, world and time, "
         "the first thing a commit adds to the log is a request on the connection in use that the layout's own decoder reads back as exactly: the receipt number recorded for "
         "the token, pre-authorised minus final amount truncated at zero, payment type 0x40, the configured currency, the token (the request is inside the class of C01, proved "
         "field by field for all values); the same for the Reservation of begin (configured amount and currency) and the PreAuthReversal of cancel; "
         "released amount = pre - min(pre, final) for ALL naturals; summary = last status information (fold lemma); abort reported with its code. "
         "Tie: amounts at 0, 1, pre-1, pre, pre+1, 10^12-1, 2^63, 2^64-1 x currencies x "
         "tokens x receipts; the requests on the wire are compared byte-exactly with the reference encoding of the specified request.", "DESIGN.md section 6, C08"),
 "C09": ('Coq, FULL at the level of whole histories (ClientLog.v): for every configuration, every history of public calls and every scripted terminal the event log satisfies '
         'log_safe (nothing is written to a connection after it was dropped, every write goes to a connection opened before, every open uses a new connection) and log_reg (the first bytes '
         'on any connection are the registration command with the configured password and currency); connect hands out a connection only after registration succeeded on it and the reported '
         'serial matched (connect_vetted); a normally completed exchange keeps the connection and the next call polls it without connecting. Tie: every public operation x every packet '
         'position (handshake included) x {close, garbage, NACK, silence, truncated, wrong / case-different / prefix serial} followed by further operations, plus multi-fault sequences with '
         'faults inside reconnect handshakes (30 / 7500): exact per-connection write logs with virtual timestamps against the extracted model (itself re-evaluated inside Coq on a sample), '
         "plus model-free predicates on the implementation's log.", "DESIGN.md section 6 C09, section 16.3"),
 "C10": ('Coq, FULL (ClientTime.v): per poll of the retrying stream, from any state and wherever the terminal falls silent (connect, registration, before the acknowledgement, '
         'between replies), elapsed time plus the remaining potential (attempts left x (throttle + 2 x timeout), + one timeout inside an exchange) never grows except by one timeout per reply '
         'item actually received; a single-exchange call ends within 20 x (2 s + 2 x timeout) + n x timeout; EVERY public operation returns within 6 x B60 + Bt((t + 2) s) for every '
         'configuration; the read-card timeout is t + 2 s > 0 without overflow for every t < 256; fuel irrelevance of the poll function. Tie: paused tokio clock, a stall at every packet '
         'position of every exchange of every operation incl. first and reconnect handshake, a packet arriving at deadline - 1 / deadline / deadline + 1 at every position, multi-stall '
         'sequences, read_card_timeout 0..255; completion and virtual elapsed time compared to the millisecond with the model; oracle: never Hang/Panic, elapsed <= budget bound. '
         'Partial (runtime): tokio timers, OS connect.', "DESIGN.md section 6 C10, section 16.3"),
 "C18": ("Coq theorems on the read-card handler for every accumulator and reply: canonical UID function = its specification; an application id in ANY entry of the list "
         "=> Bank; any application list => Bank or error, never Membership; no list + UID => Membership(canon uid); 0x6C => NoCard; the read-card request on the wire. "
         "One OPEN known finding (known_findings.json, printed as KNOWN-FINDING): a list that names no application, with a UID, is an error where the property wants the UID "
         "(C18_refuted_for_idless_lists characterises the class exactly). Tie: UID absent / "
         "0..20 bytes, application lists absent/empty/with and without ids in every order, 0-3 intermediate statuses, all 256 abort codes; oracle = the property's reading.", "DESIGN.md section 6, C18"),
 "C19": ("Coq: with other transactions open a completed cancel returns the world of its own exchange (no pending query, no end-of-day); when the map "
         "becomes empty the call IS the clean-up chain (end_of_day: pending query, reversal, end-of-day); 0xA0 tolerated, other refusals reported; "
         "end_of_day leaves the map empty. Tie: histories to depth 3 (4) x dangling receipt present / absent / bare abort x end-of-day outcomes "
         "(completion, 0xA0, sampled / all other codes) with byte-exact expected request chains.", "DESIGN.md section 6, C19"),
 "C20": ("Coq theorem for ALL codes c and every exchange with an abort arm (reservation, read card, end-of-day, partial reversal, pre-auth reversal, "
         "initialisation, set-terminal-id, system info, and the query for a dangling pre-authorisation whose answer carries 0xB8): the handler answers Err identifying c, with exactly the three documented translations; an abort "
         "ends the loop. Tie: all 256 codes x 14 operation/sub-exchange placements x position behind 0-2 intermediate statuses on the real client.",
         "DESIGN.md section 6, C20"),
 "C12": ('Coq: the C01 inverse theorem, the C02 totality / termination / allocation theorems and the C13 / C14 theorems all quantify over EVERY layout over the attribute grammar '
         '(C12_generated_pair_inverse_commands / _plain: every value of the class `canon`), with kernel-evaluated examples on a layout the shipped packets never use. Tie: random struct '
         'definitions (<= 8 fields, depth <= 3; 48 well-formed + 16 deliberately outside per round, 6 rounds in thorough) compiled with the REAL derive macro; the translator must reproduce '
         "the generator's tables from the generated Rust; canonical values encoded by the reference encoder ('the layout the attributes describe'), decoded by the generated code and by the "
         'model interpreting the same layout at run time; the extracted `canon` is run on the well-formed values (all inside the proved class); oracle: inverse + identical bytes.', "DESIGN.md section 6 C12, section 16.3"),
 "C04": ("Coq theorems about the model of io.rs: the writer's APDU header and the reader's interpretation agree for every body length <= 65535 "
         "(reader returns exactly the packet, leaves exactly the rest; the codec's own length parser agrees), k concatenated packets are read back as "
         "those k packets, a stream ending inside a packet never yields a packet, and reading over ANY chunking with Pending wake-ups anywhere equals "
         "reading the flat stream (induction over the chunk list). Tie: the real PacketTransport over an instrumented AsyncRead: every partition of "
         "short streams, random partitions of 1-5 real packets, EOF at every position, header agreement through the real writer for body lengths "
         "0..1024+boundaries (0..65535 in thorough). Partial: tokio's read_exact contract is modelled, not proved.", "DESIGN.md section 6, C04"),
 "C05": ("Coq theorems about the model of the sequence machines, for every byte stream: the run is command, acknowledgement, then (read, acknowledge, "
         "yield)* with nothing after a final item (run_shape/body_shape), and for well-formed scripts exactly the expected trace with the rest of the "
         "stream untouched (induction over the script); obligation by computation: the 17 regenerated into_stream shapes, reply enums, commands and "
         "final-variant sets equal the specification table. Tie: all 17 real into_stream's against a scripted peer logging writes/reads/items: all "
         "scripts to depth 4 (5 thorough) over each reply alphabet with queued bytes behind the final packet; expected traces computed from the "
         "SPECIFICATION table.", "DESIGN.md section 6, C05"),
 "C06": ("Coq theorems for every byte stream: a run is [command; failed read; one error] or command+acknowledgement+body where an error item is the "
         "last event, unique, and directly follows the failed read (so no write follows it and an uninterpretable packet is never acknowledged); same "
         "for the upload loop. Tie: every fault kind (NACK / foreign frame for the acknowledgement, control field outside the reply set, malformed body, "
         "truncated packet, end of stream) at every position behind every valid prefix to depth 3 (4 thorough), all 17 sequences.", "DESIGN.md section 6, C06"),
 "C11": ("Coq theorems about the upload loop for every byte stream: each data request for an announced id is answered by exactly one packet, the "
         "encoding of (id, offset, block_of block offset content), block_of = firstn block (skipn offset content); anything else ends with one error "
         "and no write; manifest = present recognised files with true sizes; obligations by computation: regenerated path table = Feig table, reply "
         "set = specification. Tie: the real WriteFile::into_stream over real files in a scratch directory (subsets of the 21 paths + unrelated files, "
         "sizes around the block size, block sizes 1..32768, repeated / overlapping / past-EOF requests, unknown ids, missing fields). Partial: "
         "read_at and file sizes < 2^32 are assumed.", "DESIGN.md section 6, C11"),
 "C13": ('Coq: theorems about the decode loop the derive macro generates, for every field list and every field decoder (any permutation of pairwise-distinct tagged groups decodes to '
         'the same value, a second group for a seen tag is DuplicateTag of that tag, all missing mandatory tags are named sorted, an unknown tag ends the loop handing back itself and what '
         'follows), INSTANTIATED for the decidable class `canon_anyorder`: for every layout and value of the class, every permutation of the tagged groups decodes to that value, also inside '
         'an APDU with any suffix (canon_anyorder_sound, canon_cmd_anyorder); every shipped layout with tagged fields is inside the class; for the class also: a second copy of any present group is rejected naming its tag, removing any subset names exactly the absent mandatory tags (canon_duplicate_rejected, canon_missing_named). Tie: all permutations up to 5/6 present groups '
         '(sampled above), a duplicate at every position, every removal subset up to 3, one- and two-byte foreign tags at every group boundary and at every group boundary INSIDE every nested container, on all shipped types; model vs '
         'implementation plus an oracle computed from the layout. One OPEN known finding (known_findings.json, printed as KNOWN-FINDING; C13_refuted_for_nested_collision): a foreign tag inside a nested container whose number is a not yet seen field of the enclosing struct is decoded as that field.', "DESIGN.md section 6 C13, section 16.3"),
 "C01": ('Coq, FULL: for EVERY layout (any field list over the attribute grammar) and EVERY value of the decidable class `canon` (CanonClass.v: positional before tagged, '
         'distinct representable tags, self-delimiting or context-checked fields, Option / Vec / nested structs to any depth) serialising gives exactly the bytes `canon` computes and '
         'deserialising gives back exactly the value with nothing left, any suffix behind the APDU handed back (canon_cmd_roundtrip, canon_struct_roundtrip, canon_sound); whole value '
         'families are inside the class (all integers of a width, all BCD numbers of a digit count, all CP437 / hex / UTF-8 text, all date-times 0..9999); every shipped layout is inside it '
         'with all optionals present and absent (regenerated tables). Tie: canonical values of all 55 regenerated types (300 / 5000 per type, APDU bodies at 253..257) encoded by an '
         'independent reference encoder, decoded by the real codec and by the extracted model; the extracted `canon` is run on every generated value (all inside the class); a sample is '
         're-evaluated inside Coq (vm_compute); oracle: decode(encode v) = (v, no rest), re-encode = same bytes.', "DESIGN.md section 6 C01, section 16.3"),
 "C03": ("Coq obligation by computation: all 55 layouts regenerated from /repo equal the hand-written specification layouts (global bitmap table, "
         "TLV tag table, per-packet numbers and role names, control fields) up to what is visible on the wire. Tie: bytes assembled from the "
         "SPECIFICATION layout (read back from Coq) by the reference encoder must decode in the real codec into exactly the named fields and "
         "re-encode identically; model and implementation compared on the same bytes.", "DESIGN.md section 6, C03"),
 "C14": ("Coq theorems, unbounded: for every layout, every body (canonical or not) and every suffix, decoding header++body++suffix equals decoding "
         "header++body with the suffix appended to the remainder; for every delimiting length style and every inner decoder a frame never looks "
         "beyond its length (framed_suffix). Tie: differential run + oracle with all 256 single-byte suffixes, a valid packet, the packet "
         "itself and random suffixes behind every command type, and foreign bytes behind nested containers.", "DESIGN.md section 6, C14"),
 "C15": ("Coq theorems: a reply parser returns variant i iff the input's first two bytes are variant i's control field, with exactly that packet "
         "type's own decode result (sound + complete under NoDup), WrongTag(0) outside the set, IncompleteData below two bytes; obligations by "
         "computation on the regenerated enums: control fields pairwise distinct, each command's reply enum = the reply set of the specification "
         "table. Tie: every enum x all 65,536 control fields x bodies (empty, valid for each variant, valid for another packet, random), "
         "oracle against the specification's reply sets.", "DESIGN.md section 6, C15"),
 "C02": ('Coq theorems for EVERY layout (not only shipped ones), every byte string, every fuel: the generated decoder never returns Panic, never hands back more than it was given, '
         'fuel = nesting depth suffices (no loop without progress), and what it builds is at most (2 + nesting depth) units (string characters, bytes, Vec elements) per byte CONSUMED '
         '(dec_sized); instantiated by computation on the regenerated tables for all shipped command decoders, containers and reply parsers (<= 12 units per APDU byte); BCD decoder = exact '
         'value or error. Tie: differential run in debug (overflow checks) AND release builds over all short bodies, every truncation and single-byte substitution of corpus + generated '
         'packets, structure-aware mutants; model-free oracle: never Panic/Hang, heap allocation measured by a counting allocator <= 64*len+8192. One OPEN known finding (known_findings.json, printed as KNOWN-FINDING; C02_refuted_for_wide_integers): a binary integer under a BER-TLV length announcing more bytes than the field is wide is read from its first bytes instead of being an error.', "DESIGN.md section 6 C02, section 16.3"),
 "C16": ("Unbounded Coq theorems about the model of zvt_builder::length (round trip with arbitrary trailing data, injectivity, "
         "shortest form with the 128/256 and 255 switch points, truncated prefix is an error, no parser panics); the model is tied "
         "to the code by an exhaustive differential run (every representable length of every style; every 1-2 byte prefix "
         "string, 3-byte in thorough) plus a model-free oracle on the implementation.", "DESIGN.md section 6, C16"),
 "C17": ('Unbounded Coq theorems about the model of the value encodings: LE/BE integers of every width, BCD round trip and exact characterisation of the decoder incl. overflow => '
         'error, F padding, tags (exactly the representable ones round-trip), hex both ways, CP437 both ways with a kernel-checked bijective table, UTF-8 for every list of scalar values '
         '(utf8_roundtrip), date-time TLV for every calendar date-time of the years 0..9999 (datetime_roundtrip). Tie: differential run (u8 / u16 / all 65536 tags and all 0-2 byte inputs '
         'exhaustively, 0-3 bytes in thorough, boundaries and random beyond; release build too in thorough) plus round-trip oracle.', "DESIGN.md section 6 C17, section 16.3"),
}
claimed = sorted(CLAIMS)
m = {
 "version": 1,
 "setup_cmd": "./check --setup",
 "hooks": {"guard": "zvt_verif",
           "enable": "cargo feature `zvt_verif` on zvt_feig_terminal (the client harness depends on it with features=[\"zvt_verif\"])",
           "baseline_off_cmd": "cd /repo && cargo test --workspace --no-fail-fast --offline",
           "source_commits": ["b1fd2de"], "add_only": False},
 "engines": [
  {"name": "coq-model", "path": "coq/", "serves_properties": claimed,
   "kind_free_text": "Coq 8.16.1 development: executable model + theorems; Properties/Cxx.v hold only statements closed by `exact` + Print Assumptions"},
  {"name": "ocaml-driver", "path": "ocaml/driver.ml", "serves_properties": claimed,
   "kind_free_text": "extracted model (ExtrOcamlBasic only) run on the same case files as the implementation"},
  {"name": "harness-client", "path": "harness_client/", "serves_properties": ["C07", "C08", "C09", "C10", "C18", "C19", "C20"],
   "kind_free_text": "the real Feig client built with the hook feature zvt_verif, driven under tokio's paused clock against a scripted terminal"},
  {"name": "harness", "path": "harness/", "serves_properties": claimed,
   "kind_free_text": "Rust binaries depending by path on /repo's crates, rebuilt from the working tree on every check"}],
 "checks": [],
 "notes": "See DESIGN.md. Exit codes of ./check: 0 held, 1 VIOLATION, 2 ERROR (machinery could not run; never a violation).",
 "not_applicable": [],
}
for p in props:
    i = p["id"]
    if i in CLAIMS:
        text, ref = CLAIMS[i]
        m["checks"].append({
            "property_id": i, "quick_cmd": "./check %s quick" % i, "thorough_cmd": "./check %s thorough" % i,
            "evidence_file": "evidence/%s.json" % i, "replay_cmd_template": "./check %s --replay {path}" % i,
            "engine": "coq-model",
            "level_claimed": {"category": "proof", "text": text, "design_ref": ref},
            "level_note": COMMON_NOTE,
            "technique": "machine-checked proof in Coq (Rocq) + model/implementation correspondence check"})
    else:
        m["not_applicable"].append({"property_id": i, "reason": "not claimed in this commit: its machinery is still under construction (order in DESIGN.md section 14); to be claimed once its check exists"})
json.dump(m, open(os.path.join(V, "MANIFEST.json"), "w"), indent=1)
print("claimed:", claimed)
