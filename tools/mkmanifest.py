#!/usr/bin/env python3
"""Regenerates MANIFEST.json from the table below (kept in one place so it stays valid)."""
import json, os
V = os.path.dirname(os.path.dirname(os.path.abspath(__file__)))
props = [json.loads(l) for l in open(os.path.join(V, "properties.jsonl"))]

COMMON_NOTE = ("Trusted: Coq 8.16.1 kernel (full .vo build, Print Assumptions = closed under the global context), "
               "extraction with ExtrOcamlBasic only, ocaml/driver.ml, the Rust harness; the hand-written model is tied "
               "to /repo's source by the differential (correspondence) run of every check, the tables by the translator.")
CLAIMS = {
 "C02": ("Coq theorems for EVERY layout (not only shipped ones), every byte string, every fuel: the generated decoder never returns Panic, "
         "never hands back more than it was given, and fuel = nesting depth suffices (no loop without progress); instantiated by computation on "
         "the regenerated tables for all shipped command decoders, containers and reply parsers; BCD decoder = exact value or error. Tie: "
         "differential run in debug (overflow checks) AND release builds over all short bodies, every truncation and single-byte "
         "substitution of corpus + generated packets, structure-aware mutants; model-free oracle: never Panic/Hang, allocation "
         "measured by a counting allocator <= 64*len+8192.", "DESIGN.md section 6, C02"),
 "C16": ("Unbounded Coq theorems about the model of zvt_builder::length (round trip with arbitrary trailing data, injectivity, "
         "shortest form with the 128/256 and 255 switch points, truncated prefix is an error, no parser panics); the model is tied "
         "to the code by an exhaustive differential run (every representable length of every style; every 1-2 byte prefix "
         "string, 3-byte in thorough) plus a model-free oracle on the implementation.", "DESIGN.md section 6, C16"),
 "C17": ("Unbounded Coq theorems about the model of the value encodings (LE/BE integers of every width, BCD round trip and exact "
         "characterisation of the decoder incl. overflow => error, F padding, tags: exactly the representable ones round-trip, "
         "hex both ways, CP437 both ways with a kernel-checked bijective table); tie: differential run (u8/u16/all 65536 tags and "
         "all 0-2 byte inputs exhaustively, boundaries and random beyond; release build too in thorough) plus round-trip oracle.",
         "DESIGN.md section 6, C17"),
}
claimed = sorted(CLAIMS)
m = {
 "version": 1,
 "setup_cmd": "./check --setup",
 "hooks": {"guard": "zvt_verif",
           "enable": "cargo feature `zvt_verif` on zvt_feig_terminal (the client harness depends on it with features=[\"zvt_verif\"])",
           "baseline_off_cmd": "cd /repo && cargo test --workspace --no-fail-fast --offline",
           "source_commits": [], "add_only": False},
 "engines": [
  {"name": "coq-model", "path": "coq/", "serves_properties": claimed,
   "kind_free_text": "Coq 8.16.1 development: executable model + theorems; Properties/Cxx.v hold only statements closed by `exact` + Print Assumptions"},
  {"name": "ocaml-driver", "path": "ocaml/driver.ml", "serves_properties": claimed,
   "kind_free_text": "extracted model (ExtrOcamlBasic only) run on the same case files as the implementation"},
  {"name": "harness", "path": "harness/", "serves_properties": claimed,
   "kind_free_text": "Rust binaries depending by path on /repo's crates, rebuilt from the working tree on every check"}],
 "checks": [],
 "notes": "See DESIGN.md. Exit codes of ./check: 0 held, 1 VIOLATION, 2 ERROR (machinery could not run; never a violation).",
 "not_applicable": [],
}
for p in props:
    i = p["id"]
    if i in CLAIMS:
        text, ref = CLAIMS[i]
        m["checks"].append({
            "property_id": i, "quick_cmd": "./check %s quick" % i, "thorough_cmd": "./check %s thorough" % i,
            "evidence_file": "evidence/%s.json" % i, "replay_cmd_template": "./check %s --replay {path}" % i,
            "engine": "coq-model",
            "level_claimed": {"category": "proof", "text": text, "design_ref": ref},
            "level_note": COMMON_NOTE,
            "technique": "machine-checked proof in Coq (Rocq) + model/implementation correspondence check"})
    else:
        m["not_applicable"].append({"property_id": i, "reason": "not claimed in this commit: its machinery is still under construction (order in DESIGN.md section 14); to be claimed once its check exists"})
json.dump(m, open(os.path.join(V, "MANIFEST.json"), "w"), indent=1)
print("claimed:", claimed)
