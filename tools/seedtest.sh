#!/bin/bash
# usage: tools/seedtest.sh <patch.diff> <Cxx> [<Cyy> ...]   -- apply a seeded change to /repo, run checks, undo it
set -u
patch=$1; shift
cd /verif
git -C /repo diff --quiet || { echo "/repo is dirty"; exit 2; }
rm -rf /verif/.cache/evidence.bak; cp -r /verif/evidence /verif/.cache/evidence.bak
git -C /repo apply "$patch" || { echo "patch does not apply"; exit 2; }
for p in "$@"; do
  echo "=== $p with $(basename $(dirname $patch))"
  ./check $p quick 2>&1 | tail -8
  echo "exit=$?"
done
git -C /repo checkout -- .
rm -rf /verif/evidence; mv /verif/.cache/evidence.bak /verif/evidence
/verif/.cache/target/release/zvt2coq /repo /verif >/dev/null 2>&1
git -C /repo status --short
