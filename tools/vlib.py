"""vlib — shared machinery of ./check: builds (Coq, extraction, harness), running the extracted
model and the implementation on the same case files, comparing, evidence, replays, known findings."""
import hashlib
import json
import os
import random
import re
import subprocess
import sys
import time
from concurrent.futures import ThreadPoolExecutor

VERIF = os.path.dirname(os.path.dirname(os.path.abspath(__file__)))
REPO = os.environ.get("ZVT_REPO", "/repo")
CACHE = os.path.join(VERIF, ".cache")
COQ = os.path.join(VERIF, "coq")
OCAML_BUILD = os.path.join(CACHE, "ocaml")
TARGET = os.path.join(CACHE, "target")
REPLAYS = os.path.join(VERIF, "replays")
EVIDENCE = os.path.join(VERIF, "evidence")
NPROC = 16

ENV = dict(os.environ)
ENV.update({"CARGO_NET_OFFLINE": "true", "CARGO_TARGET_DIR": TARGET, "RUST_BACKTRACE": "0"})


class HangFound(Exception):
    """The implementation did not return on one case within the watchdog (case line attached)."""

    def __init__(self, case, prog):
        Exception.__init__(self, "hang on %s" % case)
        self.case, self.prog = case, prog


class MachineryError(Exception):
    """The machinery could not run (e.g. /repo does not compile): exit code 2, never a violation."""


def sh(cmd, cwd=None, timeout=3600, env=None, check=False, stdin=None):
    p = subprocess.run(cmd, cwd=cwd, shell=isinstance(cmd, str), stdout=subprocess.PIPE,
                       stderr=subprocess.STDOUT, timeout=timeout, env=env or ENV, input=stdin)
    out = p.stdout.decode("utf-8", "replace")
    if check and p.returncode != 0:
        raise MachineryError("command failed (%s): %s\n%s" % (p.returncode, cmd, out[-4000:]))
    return p.returncode, out


def file_hash(paths):
    h = hashlib.sha256()
    for p in sorted(paths):
        h.update(p.encode())
        with open(p, "rb") as f:
            h.update(f.read())
    return h.hexdigest()


def tree_files(root, exts, skip=("target", ".git", ".cache")):
    out = []
    for d, dirs, files in os.walk(root):
        dirs[:] = [x for x in dirs if x not in skip]
        for f in files:
            if f.endswith(exts):
                out.append(os.path.join(d, f))
    return out


# ----------------------------------------------------------------------------- Coq

FORBIDDEN = re.compile(r"\b(Admitted|admit|Axiom|Axioms|Parameter|Parameters|Conjecture|Conjectures|"
                       r"Unset\s+Guard|bypass_check|Admit\s+Obligations|type-in-type|impredicative-set|"
                       r"Unset\s+Universe\s+Checking|Unset\s+Positivity)\b")
SECTIONLESS = re.compile(r"^\s*(Variable|Variables|Hypothesis|Hypotheses|Context)\b")

ALLOWED_AXIOMS = set()  # target: every theorem "Closed under the global context"


def strip_coq_comments(src):
    out, depth, i = [], 0, 0
    while i < len(src):
        if src.startswith("(*", i):
            depth += 1
            i += 2
        elif src.startswith("*)", i) and depth:
            depth -= 1
            i += 2
        else:
            if not depth:
                out.append(src[i])
            elif src[i] == "\n":
                out.append("\n")
            i += 1
    return "".join(out)


def forbidden_scan():
    """Admitted/Axiom/... anywhere in the development, Variable/Hypothesis outside a section."""
    hits = []
    for p in tree_files(COQ, (".v",)):
        src = strip_coq_comments(open(p).read())
        depth = 0
        for ln, line in enumerate(src.split("\n"), 1):
            if re.match(r"^\s*Section\b", line):
                depth += 1
            if re.match(r"^\s*End\b", line) and depth:
                depth -= 1
            if FORBIDDEN.search(line):
                hits.append("%s:%d: %s" % (os.path.relpath(p, VERIF), ln, line.strip()))
            if depth == 0 and SECTIONLESS.match(line):
                hits.append("%s:%d: %s (outside a section)" % (os.path.relpath(p, VERIF), ln, line.strip()))
    return hits


def translator_run():
    """Regenerates coq/gen/*.v, gen/layouts.json, harness dispatch from /repo's working tree."""
    tr = os.path.join(CACHE, "target", "release", "zvt2coq")
    if not os.path.exists(os.path.join(VERIF, "translate", "Cargo.toml")):
        return True, "no translator yet"
    rc, out = sh(["cargo", "build", "--offline", "--release", "--manifest-path",
                  os.path.join(VERIF, "translate", "Cargo.toml")], timeout=1800)
    if rc != 0:
        raise MachineryError("translator does not build:\n" + out[-3000:])
    probe = os.path.join(CACHE, "gen", "probe.txt")
    if os.path.exists(probe):
        os.remove(probe)
    rc, out = sh([tr, REPO, VERIF], timeout=300)
    # A sequence whose into_stream body the recogniser does not know (a refactoring may write the same loop in many ways) is
    # OBSERVED instead: the real sequence is run against [ack, reply v, reply v] for every variant v of its reply enum; v ends the
    # exchange iff the second copy is left unread.  The translator is then run again with these observations (never overriding
    # a shape it did recognise); Tables.probed names the sequences concerned.
    names = [l.split(": ")[1] for l in out.splitlines() if l.startswith("unrecognised: ") and "into_stream has an unrecognised shape" in l]
    lines = []
    if names:
        try:
            lines += probe_sequences(names)
        except (MachineryError, HangFound):
            pass                     # no observation: the shape stays `unrecognised` and is reported as such
    # likewise the texts of the result codes: where the source does not show them in a form the recogniser knows (a lookup
    # table, say), they are read off the running code (Display of every ErrorMessages::from_u8(c))
    if any(l.startswith("unrecognised: ErrorMessages::") for l in out.splitlines()):
        try:
            codec = harness_build("harness", ["codec"])["codec"]
            wd = os.path.join(CACHE, "run", "probe")
            os.makedirs(wd, exist_ok=True)
            o = run_sharded(codec, ["errtab"], wd, "errtab", shards=1)
            if o and o[0]:
                lines.append("errtab\t" + o[0])
        except (MachineryError, HangFound):
            pass
    if lines:
        write_lines(probe, lines)
        env = dict(ENV, ZVT2COQ_PROBE=probe)
        rc, out = sh([tr, REPO, VERIF], timeout=300, env=env)
    return rc == 0, out


def probe_sequences(names):
    from . import layouts
    import random
    L = layouts.load()
    S = {s["name"]: s for s in L["structs"]}
    E = {e["name"]: e for e in L["enums"]}
    Q = {q["name"]: q for q in L["sequences"]}
    seqb = harness_build("harness", ["seq"])["seq"]
    rng = random.Random(7)
    cases, meta = [], []
    for n in names:
        q = Q.get(n)
        if q is None or q["input"] not in S or q["output"] not in E:
            continue
        _, cmd = layouts.gen_struct_value(rng, S[q["input"]])
        for vn, target in E[q["output"]]["variants"]:
            _, pkt = layouts.gen_struct_value(rng, S[target])
            cases.append("seq\t%s\t%s\t%s" % (n, cmd.hex(), (bytes([0x80, 0, 0]) + pkt + pkt).hex()))
            meta.append((n, vn, len(pkt)))
    if not cases:
        return []
    wd = os.path.join(CACHE, "run", "probe")
    os.makedirs(wd, exist_ok=True)
    outs = run_sharded(seqb, cases, wd, "probe", shards=1)
    finals, seen = {}, {}
    for (n, vn, ln), o in zip(meta, outs):
        seen.setdefault(n, [])
        # the first reply was yielded; final iff exactly the second copy is left unread and nothing further was read
        toks = o.split()
        ys = [t for t in toks if t.startswith("Y:")]
        left = int(toks[-1].split("=")[1]) if toks and toks[-1].startswith("left=") else -1
        if len(ys) == 1 and not ys[0].startswith("Y:Err") and left == ln:
            finals.setdefault(n, []).append(vn)
        elif len(ys) >= 2 or (len(ys) == 1 and left < ln):
            finals.setdefault(n, [])
        else:
            return []            # an observation that fits neither: leave the shape unrecognised
    return ["%s\t%s" % (n, ",".join(f)) for n, f in finals.items()]


def coq_makefile():
    mk = os.path.join(COQ, "Makefile")
    cp = os.path.join(COQ, "_CoqProject")
    if not os.path.exists(mk) or os.path.getmtime(mk) < os.path.getmtime(cp):
        sh("coq_makefile -f _CoqProject -o Makefile", cwd=COQ, check=True)


def coq_build(targets=None, timeout=3000):
    """Full .vo build (never -vos).  Returns (ok, log)."""
    coq_makefile()
    cmd = ["make", "-j%d" % NPROC, "-k"] + (targets or [])
    rc, out = sh(cmd, cwd=COQ, timeout=timeout)
    return rc == 0, out


def coq_vo_closure_ok(vfile):
    """Builds exactly the .vo the given file depends on (and itself)."""
    coq_makefile()
    rc, out = sh(["make", "-j%d" % NPROC, vfile[:-2] + ".vo"], cwd=COQ, timeout=3000)
    return rc == 0, out


def property_theorems(prop):
    """Compiles Properties/<prop>.v afresh and audits it.
    Returns dict(ok, theorems=[names], assumptions={name: text}, log)."""
    rel = "Properties/%s.v" % prop
    path = os.path.join(COQ, rel)
    src = strip_coq_comments(open(path).read())
    names = re.findall(r"^\s*Theorem\s+(\w+)", src, re.M)
    examples = re.findall(r"^\s*Example\s+(\w+)", src, re.M)
    ok, log = coq_vo_closure_ok(rel)
    res = {"ok": ok, "theorems": names, "examples": examples, "assumptions": {}, "log": log, "problems": []}
    if not ok:
        res["problems"].append("coqc failed on %s (or a file it depends on)" % rel)
        return res
    # always re-run coqc on the leaf to obtain the Print Assumptions output of THIS tree
    rc, out = sh(["coqc", "-q", "-Q", ".", "Zvt", rel], cwd=COQ, timeout=1200)
    res["log"] = out
    if rc != 0:
        res["ok"] = False
        res["problems"].append("coqc failed on %s" % rel)
        return res
    printed = re.findall(r"^\s*Print\s+Assumptions\s+(\w+)\s*\.", src, re.M)
    blocks = re.split(r"(?m)^(?=Closed under the global context|Axioms:)", out)
    blocks = [b for b in blocks if b.startswith("Closed under") or b.startswith("Axioms:")]
    if len(blocks) != len(printed):
        res["ok"] = False
        res["problems"].append("expected %d Print Assumptions blocks, got %d" % (len(printed), len(blocks)))
    for name, blk in zip(printed, blocks):
        res["assumptions"][name] = blk.strip()
        if not blk.startswith("Closed under the global context"):
            axs = set(re.findall(r"^(\S+)\s*:", blk, re.M)) - {"Axioms"}
            bad = axs - ALLOWED_AXIOMS
            if bad:
                res["ok"] = False
                res["problems"].append("%s depends on axioms %s" % (name, sorted(bad)))
    for n in names:
        if n not in printed:
            res["ok"] = False
            res["problems"].append("theorem %s has no Print Assumptions" % n)
    # proofs in a property file may only be `exact <lemma>.`
    for m in re.finditer(r"Theorem\s+(\w+)[^.]*?(?:\.\s|\.$)(.*?)Qed\.", src, re.S):
        pass
    bodies = re.findall(r"^\s*Theorem\s+(\w+)\b.*?\bProof\.(.*?)\bQed\.", src, re.S | re.M)
    for n, b in bodies:
        if not re.fullmatch(r"\s*exact\s+[\w.@()\s]+\.\s*", b):
            res["ok"] = False
            res["problems"].append("theorem %s is not closed by a bare `exact`" % n)
    hits = forbidden_scan()
    if hits:
        res["ok"] = False
        res["problems"] += ["forbidden vernacular: " + h for h in hits]
    return res


# ----------------------------------------------------------------------------- extraction / OCaml

def ocaml_build():
    os.makedirs(OCAML_BUILD, exist_ok=True)
    srcs = tree_files(COQ, (".v",)) + [os.path.join(VERIF, "ocaml", "driver.ml")]
    srcs = [s for s in srcs if "/Properties/" not in s and not s.endswith("Props.v")
            and not s.startswith(OCAML_BUILD)]
    h = file_hash(srcs)
    stamp = os.path.join(OCAML_BUILD, "stamp")
    drv = os.path.join(OCAML_BUILD, "driver")
    if os.path.exists(stamp) and open(stamp).read() == h and os.path.exists(drv):
        return drv
    coq_build()  # -k: model files build even when a proof file is broken
    sh("rm -f model.ml model.mli driver.ml Extract.*", cwd=OCAML_BUILD)
    sh(["cp", os.path.join(COQ, "Extract.v"), OCAML_BUILD], check=True)
    rc, log = sh(["coqc", "-q", "-Q", COQ, "Zvt", "Extract.v"], cwd=OCAML_BUILD, timeout=1200)
    if rc != 0:
        raise MachineryError("model does not compile / extract:\n" + log[-3000:])
    sh(["cp", os.path.join(VERIF, "ocaml", "driver.ml"), OCAML_BUILD], check=True)
    sh("ocamlfind ocamlopt -w -a -package zarith -linkpkg model.mli model.ml driver.ml -o driver",
       cwd=OCAML_BUILD, check=True, timeout=1200)
    open(stamp, "w").write(h)
    return drv


# ----------------------------------------------------------------------------- harness

def harness_build(crate, bins, release=False, features=None):
    cdir = os.path.join(VERIF, crate)
    sh(["cp", os.path.join(REPO, "Cargo.lock"), os.path.join(cdir, "Cargo.lock")], check=True)
    cmd = ["cargo", "build", "--offline", "--quiet"]
    if release:
        cmd.append("--release")
    for b in bins:
        cmd += ["--bin", b]
    if features:
        cmd += ["--features", ",".join(features)]
    rc, out = sh(cmd, cwd=cdir, timeout=3000)
    if rc != 0:
        raise MachineryError("harness %s does not build against %s:\n%s" % (crate, REPO, out[-4000:]))
    prof = "release" if release else "debug"
    return {b: os.path.join(TARGET, prof, b) for b in bins}


# ----------------------------------------------------------------------------- running cases

def write_lines(path, lines):
    with open(path, "w") as f:
        for l in lines:
            f.write(l)
            f.write("\n")


def read_lines(path):
    with open(path) as f:
        return [l.rstrip("\n") for l in f]


def run_prog(prog, casefile, outfile, timeout=3000, env=None):
    if os.path.exists(outfile + ".hang"):
        os.remove(outfile + ".hang")
    rc, out = sh([prog, casefile, outfile], timeout=timeout, env=env)
    if rc == 3 and os.path.exists(outfile + ".hang"):
        k = int(open(outfile + ".hang").read().strip())
        lines = [l for l in read_lines(casefile) if l and not l.startswith("#")]
        raise HangFound(lines[k - 1] if 0 < k <= len(lines) else "?", prog)
    if rc != 0:
        raise MachineryError("%s failed on %s: %s" % (prog, casefile, out[-2000:]))


def run_sharded(prog, cases, workdir, tag, shards=NPROC, timeout=3000):
    """Runs `prog` over the case lines split in contiguous shards; returns the output lines in order.
    Each case line must produce a fixed, known number of output lines only when unsharded callers
    care; here we only concatenate."""
    os.makedirs(workdir, exist_ok=True)
    n = len(cases)
    shards = max(1, min(shards, n))
    bounds = [(n * i // shards, n * (i + 1) // shards) for i in range(shards)]

    def one(i):
        a, b = bounds[i]
        cf = os.path.join(workdir, "%s.%d.cases" % (tag, i))
        of = os.path.join(workdir, "%s.%d.out" % (tag, i))
        write_lines(cf, cases[a:b])
        run_prog(prog, cf, of, timeout=timeout)
        return read_lines(of)

    with ThreadPoolExecutor(max_workers=shards) as ex:
        parts = list(ex.map(one, range(shards)))
    out = []
    for p in parts:
        out += p
    return out


def run_sharded_files(prog, cases, workdir, tag, shards=NPROC, timeout=3000):
    """As run_sharded, but returns [(case_slice_bounds, output file)] without loading the outputs."""
    os.makedirs(workdir, exist_ok=True)
    n = len(cases)
    shards = max(1, min(shards, n))
    bounds = [(n * i // shards, n * (i + 1) // shards) for i in range(shards)]

    def one(i):
        a, b = bounds[i]
        cf = os.path.join(workdir, "%s.%d.cases" % (tag, i))
        of = os.path.join(workdir, "%s.%d.out" % (tag, i))
        write_lines(cf, cases[a:b])
        run_prog(prog, cf, of, timeout=timeout)
        return (bounds[i], of)

    with ThreadPoolExecutor(max_workers=shards) as ex:
        return list(ex.map(one, range(shards)))


# ----------------------------------------------------------------------------- verdicts

class Run:
    """Collects what one ./check run did."""

    def __init__(self, prop, tier, seed):
        self.prop, self.tier, self.seed = prop, tier, seed
        self.t0 = time.time()
        self.violations = []       # dicts (replay content)
        self.known = []            # strings
        self.evaluations = 0
        self.nontrivial = set()
        self.samples = []
        self.coverage = {}
        self.obligations = 0
        self.discharged = 0
        self.notes = []
        self.workdir = os.path.join(CACHE, "run", prop)
        os.makedirs(self.workdir, exist_ok=True)
        self.rng = random.Random(seed)

    def sample(self, x, limit=12):
        if len(self.samples) < limit:
            self.samples.append(x)

    def violation(self, **kw):
        kw.setdefault("property", self.prop)
        self.violations.append(kw)


def load_known():
    p = os.path.join(VERIF, "known_findings.json")
    if not os.path.exists(p):
        return []
    return json.load(open(p))


def matches_known(prop, v):
    """is this violation one of the OPEN known findings of the property (known_findings.json, non-empty `match`)?"""
    for k in load_known():
        m = k.get("match") or {}
        if k.get("property") == prop and k.get("status") == "open" and m and all(str(v.get(kk)) == str(vv) for kk, vv in m.items()):
            return k
    return None


def prefer_concrete(run):
    """a broken proof / correspondence without a failing input is reported as such (`no-failing-input-found`) UNLESS the search found
    concrete failing inputs — those then replace it.  Violations that are open known findings do not count as "found": a broken
    obligation must never disappear behind them."""
    if any(not v.get("no_failing_input_found") and not matches_known(run.prop, v) for v in run.violations):
        run.violations = [v for v in run.violations if not v.get("no_failing_input_found")]


def finish(run, level="proof", trusted_base=None, assumptions=None, checker_cmd=None):
    os.makedirs(EVIDENCE, exist_ok=True)
    os.makedirs(REPLAYS, exist_ok=True)
    reported = []
    for v in run.violations:
        matched = matches_known(run.prop, v)
        if matched:
            line = "KNOWN-FINDING: property=%s %s" % (run.prop, matched.get("summary", ""))
            if line not in run.known:
                run.known.append(line)
        else:
            reported.append(v)
    if run.discharged != run.obligations and not reported:
        # defensive: whatever the filters above did, a run whose proof obligations are not all discharged never ends as OK
        reported.append({"property": run.prop, "kind": "proof", "no_failing_input_found": True,
                         "case": "coq/Properties/%s.v" % run.prop, "how_found": "proof",
                         "expected": "all %d obligations discharged" % run.obligations, "observed": "%d discharged" % run.discharged})
    cov = dict(run.coverage)
    cov.update({
        "obligations": run.obligations,
        "discharged": run.discharged,
        "checker_cmd": checker_cmd or "make -C coq (coqc 8.16.1, full .vo) && coqc -Q coq Zvt coq/Properties/%s.v" % run.prop,
        "trusted_base": trusted_base or [],
        "evaluations": run.evaluations,
        "distinct_nontrivial": len(run.nontrivial) if isinstance(run.nontrivial, set) else int(run.nontrivial),
        "samples": run.samples or ["(none)"],
    })
    ev = {
        "property_id": run.prop, "tier": run.tier, "seed": run.seed, "level": level,
        "coverage": cov, "assumptions": assumptions or [], "wall_s": round(time.time() - run.t0, 2),
        "violations": len(reported), "known_findings": run.known, "notes": run.notes,
    }
    with open(os.path.join(EVIDENCE, "%s.json" % run.prop), "w") as f:
        json.dump(ev, f, indent=1, sort_keys=True)
    for line in run.known:
        print(line)
    if not reported:
        print("OK property=%s tier=%s obligations=%d/%d evaluations=%d wall=%.1fs" % (
            run.prop, run.tier, run.discharged, run.obligations, run.evaluations, time.time() - run.t0))
        return 0
    # one replay file per distinct violation, at most 5 printed
    seen = set()
    for v in reported:
        blob = json.dumps(v, sort_keys=True)
        hsh = hashlib.sha256(blob.encode()).hexdigest()[:12]
        if hsh in seen:
            continue
        seen.add(hsh)
        if len(seen) > 5:
            break
        path = os.path.join(REPLAYS, "%s-%s.json" % (run.prop, hsh))
        with open(path, "w") as f:
            json.dump(v, f, indent=1, sort_keys=True)
        tail = " no-failing-input-found" if v.get("no_failing_input_found") else ""
        print("VIOLATION property=%s replay=%s%s" % (run.prop, path, tail))
    return 1
