#!/bin/bash
# usage: tools/seedconfirm_client.sh <worktree> <test name>   -- demo goes to zvt_feig_terminal/tests/<test name>.rs, needs --features zvt_verif
wt=$1; name=$2
cd $wt || exit 2
export CARGO_TARGET_DIR=$wt/target
git checkout -q -- . ; mkdir -p zvt_feig_terminal/tests; cp _out/demo.rs zvt_feig_terminal/tests/$name.rs
if grep -q "test-util" _out/demo.rs && ! grep -q "test-util" zvt_feig_terminal/Cargo.toml; then
  sed -i 's/^\[dev-dependencies\]/[dev-dependencies]\ntokio = { version = "1.32.0", features = ["macros", "rt", "time", "io-util", "test-util"] }/' zvt_feig_terminal/Cargo.toml
fi
echo "--- demo on original:"; cargo test -p zvt_feig_terminal --features zvt_verif --test $name --offline 2>&1 | grep -E "^test result|^error" | head -5
git apply _out/patch.diff || exit 2
echo "--- demo with patch:"; cargo test -p zvt_feig_terminal --features zvt_verif --test $name --offline 2>&1 | grep -E "^test result|^error" | head -5
rm -f zvt_feig_terminal/tests/$name.rs; git checkout -q -- zvt_feig_terminal/Cargo.toml; git apply _out/patch.diff 2>/dev/null
echo "--- baseline with patch:"; cargo test --workspace --no-fail-fast --offline 2>&1 | grep -E "^test result" | awk '{p+=$4; f+=$6} END {print p" passed, "f" failed"}'
git checkout -q -- . ; git status --short
