#!/bin/bash
# usage: tools/coverage.sh [scratch dir]    — NOT one of the registered checks; a measurement of the generators.
# Runs the quick tier of all 20 checks in a scratch copy of /verif with the harnesses built by the nightly toolchain under
# `-C instrument-coverage`, merges the profiles and prints, per source file of /repo, lines / missed lines and the missed lines
# themselves: what the correspondence runs never execute is where a change to the code could go unnoticed.
S=${1:-/tmp/zvt_cov}
B=$(ls -d ~/.rustup/toolchains/nightly-x86_64-unknown-linux-gnu/lib/rustlib/*/bin | head -1)
[ -x $B/llvm-cov ] || { echo "no llvm-tools on the nightly toolchain"; exit 2; }
rm -rf $S; mkdir -p $S/prof
rsync -a --exclude='.cache/target' --exclude='.git' --exclude='replays' /verif/ $S/verif/
cd $S/verif || exit 2
export RUSTUP_TOOLCHAIN=nightly RUSTFLAGS="-C instrument-coverage" LLVM_PROFILE_FILE=$S/prof/%p-%8m.profraw
for p in C01 C02 C03 C04 C05 C06 C07 C08 C09 C10 C11 C12 C13 C14 C15 C16 C17 C18 C19 C20; do
  ./check $p quick 2>&1 | grep -E "^VIOLATION|^OK|^ERROR" | head -3
done
unset RUSTFLAGS LLVM_PROFILE_FILE
$B/llvm-profdata merge -sparse $S/prof/*.profraw -o $S/all.profdata
T=$S/verif/.cache/target/debug
OBJ="$T/codec -object $T/prim -object $T/seq -object $T/transport -object $T/zvt_verif_harness_client -object $T/derive_gen"
$B/llvm-cov report -instr-profile=$S/all.profdata $OBJ 2>/dev/null | grep -E "^repo/|^/repo/" | awk '{print $1, "lines", $(NF-5), "missed", $(NF-4), $(NF-3)}'
for f in $(cd /repo && git ls-files 'zvt/src/*.rs' 'zvt/src/**/*.rs' 'zvt_builder/src/*.rs' 'zvt_feig_terminal/src/*.rs'); do
  $B/llvm-cov show -instr-profile=$S/all.profdata $OBJ /repo/$f 2>/dev/null | grep -E "^ +[0-9]+\| +0\|" | sed "s#^#$f:#"
done
rm -rf $S
