"""Pieces shared by the per-property procedures."""
import json
import os
from . import vlib


def proof_part(run, prop):
    """Regenerate tables, rebuild, audit Properties/<prop>.v.  A broken proof obligation is
    recorded; the caller still runs correspondence + oracle to look for a failing input."""
    ok, log = vlib.translator_run()
    if not ok:
        run.notes.append("translator reported: " + log[-500:])
    try:
        import json, os
        probed = json.load(open(os.path.join(vlib.CACHE, "gen", "layouts.json"))).get("probed", [])
        if probed:
            run.coverage["sequence_shapes_observed_not_translated"] = probed
    except Exception:
        pass
    res = vlib.property_theorems(prop)
    n = len(res["theorems"]) + len(res["examples"])
    run.obligations += n
    run.coverage["theorems"] = res["theorems"]
    run.coverage["print_assumptions"] = res["assumptions"]
    if res["ok"] and run.tier == "thorough":
        # independent re-check of the compiled closure of the property file, and its axiom summary
        rc, out = vlib.sh(["coqchk", "-silent", "-o", "-Q", ".", "Zvt", "Zvt.Properties.%s" % prop], cwd=vlib.COQ, timeout=3000)
        tail = out[out.find("CONTEXT SUMMARY"):] if "CONTEXT SUMMARY" in out else out[-800:]
        run.coverage["coqchk"] = " ".join(tail.split())[:600]
        clean = (rc == 0 and "Axioms: <none>" in tail and "type-in-type: <none>" in tail
                 and "unsafe (co)fixpoints: <none>" in tail and "positivity is assumed: <none>" in tail)
        if not clean:
            res["ok"] = False
            res["problems"].append("coqchk does not accept the closure of Properties/%s.v cleanly" % prop)
            res["log"] = out[-1500:]
    if res["ok"]:
        run.discharged += n
    else:
        run.coverage["proof_problems"] = res["problems"]
        run.violation(kind="obligation", case="coq/Properties/%s.v" % prop, expected="all theorems check",
                      observed="; ".join(res["problems"]) + "\n" + res["log"][-1500:], how_found="obligation",
                      no_failing_input_found=True,
                      detail="a theorem of %s (or a file it depends on) no longer checks" % prop)
    return res


def compare_outputs(run, driver, impl, cases, expand, tag="x", shards=vlib.NPROC):
    """Runs model and implementation over the same case lines; returns (n_results, [(case, model, impl)]).
    Streaming: shard outputs are compared as files (hundreds of millions of lines in the thorough tier);
    only a shard that differs is walked line by line."""
    import itertools
    import subprocess
    mf = vlib.run_sharded_files(driver, cases, run.workdir, tag + "_model", shards)
    jf = vlib.run_sharded_files(impl, cases, run.workdir, tag + "_impl", shards)
    diffs, total = [], 0
    for ((a, b), mfile), (_, ifile) in zip(mf, jf):
        same = subprocess.call(["cmp", "-s", mfile, ifile]) == 0
        nm = int(subprocess.check_output(["wc", "-l", mfile]).split()[0])
        ni = nm if same else int(subprocess.check_output(["wc", "-l", ifile]).split()[0])
        if nm != ni:
            raise vlib.MachineryError("model printed %d results, implementation %d (shard %s)" % (nm, ni, mfile))
        # distinct non-trivial outcomes and samples: from the head of every shard (bounded memory)
        with open(mfile) as fm, open(ifile) as fi:
            explicit = (e for c in cases[a:b] for e in expand(c))
            for k, (c, m, i) in enumerate(zip(explicit, fm, fi)):
                if k >= 200000 and same:
                    break
                m, i = m.rstrip("\n"), i.rstrip("\n")
                if k < 200000 and m != "Err IncompleteData":
                    run.nontrivial.add(m)
                if total + k in (5, 300, 70000) or (not run.samples and k == 0):
                    run.sample({"case": c, "model": m, "impl": i})
                if m != i and len(diffs) < 200:
                    diffs.append((c, m, i))
        total += nm
    run.evaluations += total
    return total, diffs


def impl_only(crate, binname, replay_path):
    """Replays the `case` of a replay file on the implementation only."""
    r = json.load(open(replay_path))
    bins = vlib.harness_build(crate, [binname])
    wd = os.path.join(vlib.CACHE, "run", "replay")
    os.makedirs(wd, exist_ok=True)
    cf, of = os.path.join(wd, "case"), os.path.join(wd, "out")
    vlib.write_lines(cf, [r["case"]])
    vlib.run_prog(bins[binname], cf, of)
    obs = vlib.read_lines(of)
    print("case:     %s" % r["case"])
    print("expected: %s" % r.get("expected"))
    print("observed: %s" % "; ".join(obs))
    exp = r.get("expected", "")
    okay = (obs and (obs[0] == exp or (exp == "Err" and obs[0].startswith("Err "))
                     or (exp == "a value or an error" and (obs[0].startswith("Ok ") or obs[0].startswith("Err ")))))
    print("REPRODUCED" if not okay else "NOT REPRODUCED (implementation now meets the expectation)")
    return 1 if not okay else 0


def report_diffs(run, diffs, model_name, impl_name, corr_name, limit=50):
    """A model/implementation disagreement that the oracle cannot turn into a failing input of the
    property is still reported: the property is no longer shown to hold."""
    run.coverage["correspondence_disagreements"] = run.coverage.get("correspondence_disagreements", 0) + len(diffs)
    for c, m, i in diffs[:limit]:
        run.violation(kind="input", case=c, expected=m, observed=i, how_found="correspondence",
                      no_failing_input_found=True,
                      detail="model %s and %s disagree; correspondence `%s` no longer checks" % (model_name, impl_name, corr_name))
