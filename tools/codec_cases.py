"""Shared pieces of the codec-level checks (C01 C02 C03 C13 C14 C15): corpus, case expansion."""
import glob
import os
from . import vlib, layouts


def corpus(L):
    """(type name, bytes) for each captured blob x each shipped command with the blob's control field,
    plus the minimised past disagreements in corpus/*.cases."""
    out = []
    by_cf = {}
    for s in L["structs"]:
        if s["control"]:
            by_cf.setdefault(tuple(s["control"]), []).append(s["name"])
    for f in sorted(glob.glob(os.path.join(vlib.REPO, "zvt", "data", "*.blob"))):
        b = open(f, "rb").read()
        if len(b) >= 2:
            for name in by_cf.get((b[0], b[1]), []):
                out.append((name, b))
    return out


def corpus_cases():
    lines = []
    for f in sorted(glob.glob(os.path.join(vlib.VERIF, "corpus", "*.cases"))):
        lines += [l for l in vlib.read_lines(f) if l and not l.startswith("#")]
    return lines


def expand(case):
    f = case.split("\t")
    k = f[0]
    if k in ("dec_all", "enum_all"):
        kind = "dec" if k == "dec_all" else "enum"
        pre = "" if f[2] == "-" else f[2]
        n = int(f[3])
        for i in range(1 << (8 * n)):
            yield "%s\t%s\t%s" % (kind, f[1], (pre + (("%0*x" % (2 * n, i)) if n else "")) or "-")
    elif k == "enum_cf_all":
        body = "" if f[2] == "-" else f[2]
        for c in range(256):
            for i in range(256):
                yield "enum\t%s\t%02x%02x%02x%s" % (f[1], c, i, len(body) // 2, body)
    elif k in ("dec_trunc", "enum_trunc"):
        kind = "dec" if k == "dec_trunc" else "enum"
        h = "" if f[2] == "-" else f[2]
        for n in range(len(h) // 2):
            yield "%s\t%s\t%s" % (kind, f[1], h[:2 * n] or "-")
    elif k in ("dec_subst", "enum_subst"):
        kind = "dec" if k == "dec_subst" else "enum"
        h = f[2]
        for off in range(len(h) // 2):
            for v in range(256):
                yield "%s\t%s\t%s" % (kind, f[1], h[:2 * off] + "%02x" % v + h[2 * off + 2:])
    else:
        yield case


def n_outputs(case):
    f = case.split("\t")
    k = f[0]
    if k in ("dec_all", "enum_all"):
        return 1 << (8 * int(f[3]))
    if k == "enum_cf_all":
        return 65536
    h = 0 if len(f) < 3 or f[2] == "-" else len(f[2]) // 2
    if k in ("dec_trunc", "enum_trunc"):
        return h
    if k in ("dec_subst", "enum_subst"):
        return h * 256
    return 1


def outcome_class(o):
    if o.startswith("Ok "):
        return "Ok"
    if o.startswith("Err "):
        return "Err"
    return o.split(" ")[0]


def balance(cases, shards):
    """orders case lines so that contiguous shards carry similar numbers of outputs"""
    w = sorted(cases, key=n_outputs, reverse=True)
    bins = [[] for _ in range(shards)]
    load = [0] * shards
    for c in w:
        i = load.index(min(load))
        bins[i].append(c)
        load[i] += n_outputs(c)
    return bins
