"""spec — the hand-written specification tables of coq/spec/Spec.v, read back through coqc
(SpecDump.v prints them), so that the Python oracles and the Coq obligations use one table."""
import re
from . import vlib

_cache = {}


def exchanges():
    """{short sequence name: {"command": (c,i), "replies": [((c,i), final)]}}"""
    if "x" in _cache:
        return _cache["x"]
    out = _dump()
    res = {}
    for m in re.finditer(r'\("(\w+)"%string,\s*\((\d+),\s*(\d+)\),\s*\[(.*?)\]\)', out, re.S):
        reps = [((int(a), int(b)), f == "true") for a, b, f in re.findall(r"\(\s*(\d+),\s*(\d+),\s*(true|false)\)", m.group(4))]
        res[m.group(1)] = {"command": (int(m.group(2)), int(m.group(3))), "replies": reps}
    if len(res) < 17:
        raise vlib.MachineryError("could not read the specification tables back")
    _cache["x"] = res
    return res


def _dump():
    if "out" not in _cache:
        vlib.coq_vo_closure_ok("spec/SpecLayouts.v")
        rc, out = vlib.sh(["bash", "-c", "ulimit -s unlimited; coqc -q -Q . Zvt spec/SpecDump.v"], cwd=vlib.COQ, timeout=600)
        if rc != 0:
            raise vlib.MachineryError("SpecDump failed: " + out[-1000:])
        _cache["out"] = out
    return _cache["out"]


def layouts():
    """{rust struct name: {"name", "control", "fields"}} from coq/spec/SpecLayouts.v (same schema as layouts.json)"""
    if "l" in _cache:
        return _cache["l"]
    import json
    out = _dump()
    res = {}
    for m in re.finditer(r'"SPECJSON(.*?[^"])"(?=[;\]])', out, re.S):
        txt = re.sub(r"\n\s*", " ", m.group(1)).replace('""', '"')
        d = json.loads(txt)
        res[d["name"]] = {"name": d["name"], "control": d["control"], "fields": d["layout"]["fields"]}
    if len(res) < 50:
        raise vlib.MachineryError("could not read the specification layouts back (%d)" % len(res))
    _cache["l"] = res
    return res


def reply_set_of_enum(L, enum_name):
    """spec reply control fields for a generated reply enum, through the generated sequence table
    (an enum serving several sequences gets the union); the ack enum is 80 00."""
    x = exchanges()
    out = None
    for s in L["sequences"]:
        if s["output"] == enum_name:
            short = s["name"].split("::")[-1]
            if short in x:
                out = (out or set()) | {cf for cf, _ in x[short]["replies"]}
    if enum_name.endswith("::WriteFileResponse"):
        out = {cf for cf, _ in x["WriteFile"]["replies"]}
    if enum_name.endswith("::Ack"):
        out = {(0x80, 0x00)}
    return out


def result_codes():
    """{code: message} of the specification's result-code table (coq/spec/Spec.v, `result_codes`), read from the source text"""
    if "rc" in _cache:
        return _cache["rc"]
    import os
    txt = open(os.path.join(vlib.COQ, "spec", "Spec.v")).read()
    i = txt.index("Definition result_codes")
    body = txt[i:txt.index("]%string.", i)]
    res = {int(c): m.replace('""', '"') for c, m in re.findall(r'\(\s*(\d+)\s*,\s*"((?:[^"]|"")*)"\s*\)', body)}
    if len(res) < 70:
        raise vlib.MachineryError("could not read the specification's result codes (%d)" % len(res))
    _cache["rc"] = res
    return res


def _pairs(defname):
    import os
    txt = open(os.path.join(vlib.COQ, "spec", "Spec.v")).read()
    i = txt.index("Definition " + defname)
    body = txt[i:txt.index("]%string.", i)]
    return [(k, int(v, 16) if v.lower().startswith("0x") else int(v)) for k, v in re.findall(r'\(\s*"([^"]*)"\s*,\s*(0[xX][0-9a-fA-F]+|\d+)\s*\)', body)]


def upload_file_ids():
    """[(path, file id)] of the specification (coq/spec/Spec.v, `upload_file_ids`)"""
    if "up" not in _cache:
        _cache["up"] = _pairs("upload_file_ids")
        if len(_cache["up"]) < 15:
            raise vlib.MachineryError("could not read the specification's upload table")
    return _cache["up"]
