"""Cross-check of the extracted OCaml model + driver against the Coq model evaluated INSIDE Coq (vm_compute):
the same (type, bytes, expected value) triples the driver agreed with are written into a .v file and decided by
the kernel's evaluator.  A disagreement is a fault of the extraction / the driver / the Python oracle — machinery."""
import os
from . import vlib


def coq_value(v):
    if v is None:
        return "VNone"
    if isinstance(v, int):
        return "(VInt %d)" % v
    if isinstance(v, list):
        return "(VList [%s])" % "; ".join(coq_value(x) for x in v)
    tag = v[0]
    if tag == "some":
        return "(VSome %s)" % coq_value(v[1])
    if tag == "s":
        return "(VStr [%s])" % "; ".join(str(c) for c in v[1])
    if tag == "b":
        return "(VBytes [%s])" % "; ".join(str(c) for c in v[1])
    if tag == "d":
        y, mo, d, h, mi, s = v[1:]
        return "(VDate %d%%Z %d %d %d %d %d)" % (y, mo, d, h, mi, s)
    if tag == "rec":
        return "(VRec [%s])" % "; ".join(coq_value(x) for x in v[1])
    raise ValueError(v)


def crosscheck(run, triples, tag="vm", shard=120):
    """triples: [(type name, bytes, python value)].  Returns the number checked; raises MachineryError on a disagreement."""
    wd = os.path.join(vlib.CACHE, "vm", run.prop)
    os.makedirs(wd, exist_ok=True)
    files = []
    for k in range(0, len(triples), shard):
        part = triples[k:k + shard]
        path = os.path.join(wd, "%s_%d.v" % (tag, k // shard))
        with open(path, "w") as f:
            f.write("From Zvt Require Import Base Encoding VmCheck.\nFrom Coq Require Import String ZArith.\n"
                    "Open Scope string_scope. Open Scope N_scope.\nDefinition cs : list (string * list N * value) := [\n")
            f.write(";\n".join('("%s", [%s], %s)' % (n, "; ".join(str(x) for x in b), coq_value(v)) for n, b, v in part))
            f.write("].\nEval vm_compute in vm_failures cs.\n")
        files.append(path)

    def one(path):
        rc, out = vlib.sh("ulimit -s unlimited; coqc -q -noglob -Q %s Zvt %s" % (vlib.COQ, path), cwd=wd, timeout=1200)
        return path, rc, out
    from concurrent.futures import ThreadPoolExecutor
    with ThreadPoolExecutor(max_workers=vlib.NPROC) as ex:
        res = list(ex.map(one, files))
    for path, rc, out in res:
        flat = " ".join(out.split())
        if rc != 0 or "= []" not in flat:
            raise vlib.MachineryError("Coq's own evaluation of the model disagrees with the extracted model / oracle on %s:\n%s" % (path, out[-1500:]))
    run.coverage["vm_compute_crosscheck"] = "%d cases re-evaluated inside Coq, all agree" % len(triples)
    return len(triples)
