"""Cross-check of the extracted OCaml model + driver against the Coq model evaluated INSIDE Coq (vm_compute):
the same (type, bytes, expected value) triples the driver agreed with are written into a .v file and decided by
the kernel's evaluator.  A disagreement is a fault of the extraction / the driver / the Python oracle — machinery."""
import os
from . import vlib


def coq_value(v):
    if v is None:
        return "VNone"
    if isinstance(v, int):
        return "(VInt %d)" % v
    if isinstance(v, list):
        return "(VList [%s])" % "; ".join(coq_value(x) for x in v)
    tag = v[0]
    if tag == "some":
        return "(VSome %s)" % coq_value(v[1])
    if tag == "s":
        return "(VStr [%s])" % "; ".join(str(c) for c in v[1])
    if tag == "b":
        return "(VBytes [%s])" % "; ".join(str(c) for c in v[1])
    if tag == "d":
        y, mo, d, h, mi, s = v[1:]
        return "(VDate %d%%Z %d %d %d %d %d)" % (y, mo, d, h, mi, s)
    if tag == "rec":
        return "(VRec [%s])" % "; ".join(coq_value(x) for x in v[1])
    raise ValueError(v)


def crosscheck(run, triples, tag="vm", shard=120):
    """triples: [(type name, bytes, python value)].  Returns the number checked; raises MachineryError on a disagreement."""
    wd = os.path.join(vlib.CACHE, "vm", run.prop)
    os.makedirs(wd, exist_ok=True)
    files = []
    for k in range(0, len(triples), shard):
        part = triples[k:k + shard]
        path = os.path.join(wd, "%s_%d.v" % (tag, k // shard))
        with open(path, "w") as f:
            f.write("From Zvt Require Import Base Encoding VmCheck.\nFrom Coq Require Import String ZArith.\n"
                    "Open Scope string_scope. Open Scope N_scope.\nDefinition cs : list (string * list N * value) := [\n")
            f.write(";\n".join('("%s", [%s], %s)' % (n, "; ".join(str(x) for x in b), coq_value(v)) for n, b, v in part))
            f.write("].\nEval vm_compute in vm_failures cs.\n")
        files.append(path)

    def one(path):
        rc, out = vlib.sh("ulimit -s unlimited; coqc -q -noglob -Q %s Zvt %s" % (vlib.COQ, path), cwd=wd, timeout=1200)
        return path, rc, out
    from concurrent.futures import ThreadPoolExecutor
    with ThreadPoolExecutor(max_workers=vlib.NPROC) as ex:
        res = list(ex.map(one, files))
    for path, rc, out in res:
        flat = " ".join(out.split())
        if rc != 0 or "= []" not in flat:
            raise vlib.MachineryError("Coq's own evaluation of the model disagrees with the extracted model / oracle on %s:\n%s" % (path, out[-1500:]))
    run.coverage["vm_compute_crosscheck"] = "%d cases re-evaluated inside Coq, all agree" % len(triples)
    return len(triples)


# ------------------------------------------------------------------ client histories

def _nl(bs):
    return "[%s]" % "; ".join(str(x) for x in bs)


def _cps(text_bytes):
    """code points of a UTF-8 byte string (as the driver / the harness read tokens and serials)"""
    try:
        return [ord(ch) for ch in bytes(text_bytes).decode("utf-8")]
    except UnicodeDecodeError:
        return list(text_bytes)


def client_term(case_line, out_line):
    """(Coq term of one client case with the driver's own answer as the expectation) or None"""
    from . import client_cases as cc
    f = case_line.split("\t")
    if f[0] != "client":
        return None
    p = cc.parse_output(out_line)
    if p is None:
        return None
    res, ev, T = p
    cfg = dict(kv.split("=") for kv in f[1].split(";"))
    cfg_t = ("{| c_serial := %s; c_terminal_id := %s; c_currency := %d; c_amount := %d; c_read_card_timeout := %d; "
             "c_password := %d; c_max := %d |}" % (_nl(_cps(bytes.fromhex(cfg["serial"]))), _nl(_cps(cfg["tid"].encode())),
                                                   int(cfg["cur"]), int(cfg["amount"]), int(cfg["rct"]), int(cfg["pw"]), int(cfg["max"])))
    ops = []
    if f[2] != "-":
        for o in f[2].split(";"):
            q = o.split(":")
            if q[0] == "configure":
                ops.append("OConfigure")
            elif q[0] == "read_card":
                ops.append("OReadCard")
            elif q[0] == "begin":
                ops.append("OBegin %s" % _nl(_cps(bytes.fromhex(q[1]))))
            elif q[0] == "cancel":
                ops.append("OCancel %s" % _nl(_cps(bytes.fromhex(q[1]))))
            elif q[0] == "commit":
                ops.append("OCommit %s %d" % (_nl(_cps(bytes.fromhex(q[1]))), int(q[2])))
            else:
                return None
    scripts = []
    if f[3] != "-":
        for c in f[3].split("|"):
            if c == "refused":
                scripts.append("{| cs_refused := true; cs_chunks := []; cs_close := false; cs_silent := false |}")
                continue
            if c == "silent":
                scripts.append("{| cs_refused := false; cs_chunks := []; cs_close := false; cs_silent := true |}")
                continue
            close, chunks = False, []
            for item in c.split(","):
                if item in ("S", ""):
                    close = False
                elif item == "C":
                    close = True
                else:
                    d, h = item.split(":", 1)
                    bs = b"" if h in ("-", "") else bytes.fromhex(h)
                    chunks.append("(%s, %s)" % ("None" if d == "N" else "Some %d" % int(d), _nl(bs)))
            scripts.append("{| cs_refused := false; cs_chunks := [%s]; cs_close := %s; cs_silent := false |}" % ("; ".join(chunks), "true" if close else "false"))
    evs = []
    for k, cid, t, hx in ev:
        if k == "O":
            evs.append("EOpen %d %d" % (cid, t))
        elif k == "D":
            evs.append("EDrop %d %d" % (cid, t))
        elif k == "X":
            evs.append("ERefused %d" % t)
        elif k == "W":
            evs.append("EWrite %d %d %s" % (cid, t, _nl(b"" if hx in ("-", "") else bytes.fromhex(hx))))
    times = ["(%d, %d)" % (t0, dt) for (_, t0, dt) in res[1:]]
    return "(%s, [%s], [%s], [%s], %d, [%s])" % (cfg_t, "; ".join(ops), "; ".join(scripts), "; ".join(evs), T, "; ".join(times))


def client_crosscheck(run, cases, model_outs, limit=60, shard=12):
    import random
    rng = random.Random(len(cases))
    idx = list(range(len(cases)))
    rng.shuffle(idx)
    terms = []
    for k in idx:
        if len(cases[k]) > 6000:
            continue
        t = client_term(cases[k], model_outs[k])
        if t is not None:
            terms.append(t)
        if len(terms) >= limit:
            break
    wd = os.path.join(vlib.CACHE, "vm", run.prop)
    os.makedirs(wd, exist_ok=True)
    files = []
    for k in range(0, len(terms), shard):
        path = os.path.join(wd, "client_%d.v" % (k // shard))
        with open(path, "w") as f:
            f.write("From Zvt Require Import Base Encoding Client VmCheck.\nFrom Coq Require Import String ZArith.\nOpen Scope N_scope.\n"
                    "Definition cs : list (config * list op * list cscript * list event * N * list (N * N)) := [\n")
            f.write(";\n".join(terms[k:k + shard]))
            f.write("].\nEval vm_compute in vm_client_failures cs.\n")
        files.append(path)

    def one(path):
        rc, out = vlib.sh("ulimit -s unlimited; coqc -q -noglob -Q %s Zvt %s" % (vlib.COQ, path), cwd=wd, timeout=1800)
        return path, rc, out
    from concurrent.futures import ThreadPoolExecutor
    with ThreadPoolExecutor(max_workers=vlib.NPROC) as ex:
        res = list(ex.map(one, files))
    for path, rc, out in res:
        flat = " ".join(out.split())
        if rc != 0 or "= []" not in flat:
            raise vlib.MachineryError("Coq's own evaluation of run_history disagrees with the extracted model on %s:\n%s" % (path, out[-1500:]))
    run.coverage["vm_compute_crosscheck_client"] = "%d histories re-evaluated inside Coq (event log, final time, per-call times): all agree" % len(terms)
    return len(terms)
