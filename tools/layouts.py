"""layouts — the regenerated layout tables (.cache/gen/layouts.json) for the Python side:
canonical-value generation (DESIGN 5.1), an independent reference encoder that reads a layout the way
the ZVT specification writes a message, canonical value text, and structure-aware mutations."""
import json
import os
import re
from . import vlib

CP437_HIGH = [int(x) for x in re.findall(r"\d+", open(os.path.join(vlib.COQ, "Cp437.v")).read().split("cp437_high : list N := [")[1].split("]")[0])]
CP437 = list(range(128)) + CP437_HIGH
WIDTH = {"u8": 1, "u16": 2, "u32": 4, "u64": 8, "usize": 8}


def load():
    return json.load(open(os.path.join(vlib.CACHE, "gen", "layouts.json")))


# ------------------------------------------------------------------ reference encoder

def bcd_bytes(n):
    if n == 0:
        return b""
    ds = str(n)
    if len(ds) % 2:
        ds = "0" + ds
    return bytes.fromhex(ds)


def tag_bytes(t):
    if (t >> 8) in (0x1f, 0xff):
        return bytes([t >> 8, t & 0xff])
    return bytes([t & 0xff])


def len_prefix(style, n):
    if style == "LEmpty" or style == "LTemperature":
        return b""
    if style.startswith("LFixed"):
        k = int(style.split()[1])
        if n > k:
            raise ValueError("payload wider than Fixed<%d>" % k)
        return bytes(k - n)
    if style == "LTlv":
        if n < 128:
            return bytes([n])
        if n < 256:
            return bytes([0x81, n])
        if n < 65536:
            return bytes([0x82, n >> 8, n & 255])
        raise ValueError("tlv length")
    if style.startswith("LLlv"):
        d = int(style.split()[1])
        if n >= 10 ** d:
            raise ValueError("llv length")
        return bytes(0xf0 | int(c) for c in str(n).rjust(d, "0"))
    if style == "LAdpu":
        if n < 255:
            return bytes([n])
        if n < 65536:
            return bytes([0xff, n & 255, n >> 8])
        raise ValueError("apdu length")
    raise ValueError(style)


def utf8(cps):
    return "".join(chr(c) for c in cps).encode("utf-8")


def prim_payload(encname, p, v):
    if p in WIDTH:
        if encname == "Default":
            return v.to_bytes(WIDTH[p], "little")
        if encname == "BigEndian":
            return v.to_bytes(WIDTH[p], "big")
        if encname == "Bcd":
            return bcd_bytes(v)
        if encname == "PartialReversalReceiptNo":
            return b"\xff\xff" if v == 0xffff else bcd_bytes(v)
    if p == "String":
        cps = v[1]
        if encname == "Default":
            return bytes(CP437.index(c) for c in cps)
        if encname == "Hex":
            return bytes.fromhex("".join(chr(c) for c in cps))
        if encname == "Utf8":
            return utf8(cps)
    if p == "Bytes":
        return bytes(v[1])
    if p == "NaiveDateTime":
        _, y, mo, d, h, mi, s = v
        db, tb = bcd_bytes(y * 10000 + mo * 100 + d), bcd_bytes(h * 10000 + mi * 100 + s)
        return b"\x1f\x0e" + len_prefix("LTlv", len(db)) + db + b"\x1f\x0f" + len_prefix("LTlv", len(tb)) + tb
    raise ValueError("no encoding %s for %s" % (encname, p))


def enc_field(f, ty, v):
    """<tag><length><data> for one field value (ty may be the inner type of an Option/Vec)."""
    k = ty["k"]
    if k == "opt":
        return b"" if v is None else enc_field(f, ty["t"], v[1])
    if k == "vec":
        return b"".join(enc_field(f, ty["t"], x) for x in v)
    if k == "prim":
        if ty["p"] == "Bytes" and len(v[1]) == 0:
            return b""
        payload = prim_payload(f["encoding"], ty["p"], v)
    elif k == "struct":
        payload = enc_fields(ty["fields"], v[1])
    else:
        raise ValueError(k)
    t = b"" if f["tag"] is None else tag_bytes(f["tag"])
    return t + place(f, ty, payload)


def place(f, ty, payload):
    """length prefix + payload; text behind a fixed width is padded at its END (the decoder trims trailing NULs)"""
    if ty["k"] == "prim" and ty["p"] == "String" and f["length"].startswith("LFixed"):
        return payload + len_prefix(f["length"], len(payload))
    return len_prefix(f["length"], len(payload)) + payload


def enc_fields(fields, vals):
    return b"".join(enc_field(f, f["ty"], v) for f, v in zip(fields, vals))


def enc_struct(s, v):
    body = enc_fields(s["fields"], v[1])
    if s["control"] is None:
        return body
    return bytes(s["control"]) + len_prefix("LAdpu", len(body)) + body


# ------------------------------------------------------------------ canonical text (same as driver / harness)

def show(v):
    if v is None:
        return "None"
    if isinstance(v, int):
        return str(v)
    if isinstance(v, list):
        return "[" + ";".join(show(x) for x in v) + "]"
    tag = v[0]
    if tag == "some":
        return "Some(%s)" % show(v[1])
    if tag == "s":
        return "s:" + (".".join("%x" % c for c in v[1]) or "-")
    if tag == "b":
        return "[" + ";".join(str(b) for b in v[1]) + "]"
    if tag == "d":
        return "d:%d,%d,%d,%d,%d,%d" % tuple(v[1:])
    if tag == "rec":
        return "{" + ";".join(show(x) for x in v[1]) + "}"
    raise ValueError(v)


# ------------------------------------------------------------------ canonical values (DESIGN 5.1)

def fixed_n(style):
    return int(style.split()[1]) if style.startswith("LFixed") else None


def payload_limit(style):
    if style.startswith("LLlv"):
        return 10 ** int(style.split()[1]) - 1
    if style == "LTlv":
        return 65535
    if style.startswith("LFixed"):
        return fixed_n(style)
    return 4000


def gen_int(rng, f, p):
    w = WIDTH[p]
    top = 256 ** w - 1
    e, style = f["encoding"], f["length"]
    if e == "PartialReversalReceiptNo":
        return rng.choice([0xffff, 0, 1, 9999, rng.randrange(10000)])
    if e == "Bcd":
        n = fixed_n(style)
        if n is not None:
            top = min(top, 10 ** (2 * n) - 1)
        elif style.startswith("LLlv"):
            top = min(top, 10 ** (2 * payload_limit(style)) - 1)
    digits = len(str(top))
    return min(top, rng.choice([0, 1, top, top - 1, 9, 10, 99, 100, rng.randrange(top + 1),
                                rng.randrange(10 ** rng.randrange(1, digits + 1))]))


def gen_len(rng, style, small=True):
    n = fixed_n(style)
    if n is not None:
        return n
    if style == "LTemperature":
        return rng.choice([3, 4])
    lim = payload_limit(style)
    pool = [0, 1, 2, 3, 5, 8, 17]
    if not small:
        pool += [98, 99, 100, 127, 128, 255, 256, 998, 999, 1000]
    return min(lim, rng.choice(pool))


def gen_prim(rng, f, p, big=False):
    e, style = f["encoding"], f["length"]
    if p in WIDTH:
        return gen_int(rng, f, p)
    if p == "String":
        n = gen_len(rng, style, small=not big)
        if e == "Default" and fixed_n(style) is not None and rng.random() < 0.4:
            n = rng.choice([0, 1, max(0, n - 2), max(0, n - 1)])      # text shorter than its fixed-width field
        if e == "Default":
            cps = [rng.choice(CP437) for _ in range(n)]
            if cps and cps[-1] == 0:
                cps[-1] = 0x41
            return ("s", cps)
        if e == "Hex":
            return ("s", [ord(c) for c in "".join("%02x" % rng.randrange(256) for _ in range(n))])
        if e == "Utf8":
            cps = []
            budget = n
            while budget > 0:
                c = rng.choice([0x41, 0x7a, 0x30, 0xe9, 0x20ac, 0x1f600, rng.randrange(0x20, 0x7f)])
                l = len(chr(c).encode("utf-8"))
                if l > budget:
                    c, l = 0x41, 1
                cps.append(c)
                budget -= l
            return ("s", cps)
    if p == "Bytes":
        n = max(1, gen_len(rng, style, small=not big))
        return ("b", [rng.randrange(256) for _ in range(n)])
    if p == "NaiveDateTime":
        y = rng.choice([0, 1, 23, 1999, 2000, 2023, 2024, 9999, rng.randrange(10000)])
        mo = rng.randrange(1, 13)
        leap = y % 4 == 0 and (y % 100 != 0 or y % 400 == 0)
        dim = [31, 29 if leap else 28, 31, 30, 31, 30, 31, 31, 30, 31, 30, 31][mo - 1]
        return ("d", y, mo, rng.choice([1, dim, rng.randrange(1, dim + 1)]), rng.randrange(24), rng.randrange(60), rng.randrange(60))
    raise ValueError(p)


LONG_VEC = {"n": None, "used": False}


def gen_long_vec_value(rng, s, n):
    """a canonical value of s in which the first repeated field met has exactly n elements (None if s has no repeated field)"""
    LONG_VEC["n"], LONG_VEC["used"] = n, False
    try:
        v, b = gen_struct_value(rng, s)
        return (v, b) if LONG_VEC["used"] else None
    finally:
        LONG_VEC["n"], LONG_VEC["used"] = None, False


def gen_ty(rng, f, ty, depth, big):
    k = ty["k"]
    if k == "prim":
        return gen_prim(rng, f, ty["p"], big)
    if k == "struct":
        return gen_rec(rng, ty["fields"], depth + 1, big)
    if k == "opt":
        if rng.random() < (0.35 if f["tag"] is not None else 0.0):
            return None
        return ("some", gen_ty(rng, f, ty["t"], depth, big))
    if k == "vec":
        n = rng.choice([0, 1, 1, 2, 3, 4] if not big else [0, 1, 2, 9])
        if LONG_VEC["n"] is not None and not LONG_VEC["used"]:
            # ONE repeated field of the value gets exactly this many elements (the element count is carried by no length field:
            # nothing but the count itself can show a limit on it)
            n, LONG_VEC["used"] = LONG_VEC["n"], True
        out = []
        for _ in range(n):
            for _try in range(8):
                x = gen_ty(rng, f, ty["t"], depth, big)
                if enc_field(f, ty["t"], x):          # elements with an empty encoding are not canonical
                    out.append(x)
                    break
        return out
    raise ValueError(k)


def gen_rec(rng, fields, depth=0, big=False, absent_pos=True):
    vals = [gen_ty(rng, f, f["ty"], depth, big) for f in fields]
    # an absent positional optional is canonical only if the inner decoder must fail on what follows:
    # allowed here for Fixed<n> inners when fewer than n bytes follow
    for i, f in enumerate(fields):
        if absent_pos and f["tag"] is None and f["ty"]["k"] == "opt" and rng.random() < 0.3:
            n = fixed_n(f["length"])
            if n is None:
                continue
            rest = b"".join(enc_field(g, g["ty"], v) for g, v in zip(fields[i + 1:], vals[i + 1:]))
            if len(rest) < n:
                vals[i] = None
    return ("rec", vals)


def gen_struct_value(rng, s, big=False, absent_pos=True):
    for _ in range(20):
        v = gen_rec(rng, s["fields"], 0, big, absent_pos)
        try:
            b = enc_struct(s, v)
        except ValueError:
            continue
        return v, b
    raise RuntimeError("could not generate a canonical value for " + s["name"])


def minimal_value(s):
    """every Option absent / Vec empty where allowed; used as a seed for single-field cases"""
    import random
    rng = random.Random(0)

    def mini(f, ty):
        k = ty["k"]
        if k == "opt":
            return None if f["tag"] is not None else ("some", mini(f, ty["t"]))
        if k == "vec":
            return []
        if k == "struct":
            return ("rec", [mini(g, g["ty"]) for g in ty["fields"]])
        return gen_prim(rng, f, ty["p"])
    return ("rec", [mini(f, f["ty"]) for f in s["fields"]])



# ------------------------------------------------------------------ values of an exact encoded size

def stretchable(fields, v):
    """the text / byte payloads of a value whose length may be chosen freely (found through present optionals and nested
    records); returned as (field, list) pairs — the list is the value's own and may be resized in place"""
    out = []

    def walk(f, ty, x):
        k = ty["k"]
        if k == "opt":
            if x is not None:
                walk(f, ty["t"], x[1])
        elif k == "struct":
            for g, y in zip(ty["fields"], x[1]):
                walk(g, g["ty"], y)
        elif k == "prim" and fixed_n(f["length"]) is None and f["length"] not in ("LEmpty", "LTemperature"):
            if ty["p"] == "String" and f["encoding"] == "Default":
                out.append((f, x[1], 0x41))
            elif ty["p"] == "Bytes":
                out.append((f, x[1], 0x5a))
    for f, x in zip(fields, v[1]):
        walk(f, f["ty"], x)
    return out


def resize_to(rng, fields, v, size_of, target):
    """resize one free payload of v (in place) until size_of(v) == target; False when that is not possible"""
    cands = stretchable(fields, v)
    rng.shuffle(cands)
    for f, lst, fill in cands:
        keep = list(lst)
        for _ in range(6):
            try:
                cur = size_of(v)
            except ValueError:
                break
            if cur == target:
                return True
            n = len(lst) + target - cur
            if n < (1 if fill == 0x5a else 0) or n > payload_limit(f["length"]):
                break
            lst[:] = (lst + [fill] * n)[:n]
        lst[:] = keep
    return False

# ------------------------------------------------------------------ structure-aware mutations

def mutate(rng, b):
    """one structure-aware mutation of a valid encoding"""
    b = bytearray(b)
    if not b:
        return bytes([rng.randrange(256)])
    m = rng.randrange(12)
    i = rng.randrange(len(b))
    if m == 0:
        b[i] = rng.randrange(256)
    elif m == 1:
        del b[i:]
    elif m == 2:
        b[i:i] = bytes([rng.choice([0x81, 0x82, 0xff, 0x1f, 0x00, 0x7f, 0x80, rng.randrange(256)])])
    elif m == 3:
        b[i] = rng.choice([0x81, 0x82, 0xff, 0x80, 0x7f, 0x00])
    elif m == 4:
        b[i] = (b[i] + rng.choice([1, -1, 2, 16])) % 256
    elif m == 5:
        j = rng.randrange(len(b))
        b[i], b[j] = b[j], b[i]
    elif m == 6:
        j = min(len(b), i + rng.randrange(1, 6))
        b[i:i] = b[i:j]                                  # duplicate a chunk (duplicate tags)
    elif m == 7:
        j = min(len(b), i + rng.randrange(1, 6))
        del b[i:j]
    elif m == 8:
        b[i] = rng.choice([0x99, 0xff, 0x9f, 0xf9, 0xaa])  # digit overflow / F nibbles
    elif m == 9:
        b += bytes(rng.randrange(256) for _ in range(rng.randrange(1, 5)))
    elif m == 10:
        b[i:i + 1] = bytes([0x82, rng.randrange(256)])
    else:
        b[i:i] = bytes([0x1f, rng.choice([0x0e, 0x0f, 0x10, 0x45]), rng.randrange(12)])
    return bytes(b)


def hexs(b):
    return b.hex() or "-"
