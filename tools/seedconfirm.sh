#!/bin/bash
# usage: tools/seedconfirm.sh <worktree> <demo destination (relative)> <cargo test args...>
# confirms in the scratch worktree: demo passes on the original, fails with the patch; baseline passes with the patch
wt=$1; dest=$2; shift 2
cd $wt || exit 2
export CARGO_TARGET_DIR=$wt/target
git checkout -q -- . ; mkdir -p $(dirname $dest); cp _out/demo.rs $dest
echo "--- demo on original:"; cargo test "$@" --offline 2>&1 | grep -E "^test result|^error" | head -5
git apply _out/patch.diff || exit 2
echo "--- demo with patch:"; cargo test "$@" --offline 2>&1 | grep -E "^test result|^error" | head -5
rm -f $dest
echo "--- baseline with patch:"; cargo test --workspace --no-fail-fast --offline 2>&1 | grep -E "^test result" | awk '{p+=$4; f+=$6} END {print p" passed, "f" failed"}'
git checkout -q -- . ; git status --short
