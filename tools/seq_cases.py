"""Shared pieces of the sequence-level checks (C05, C06, C11): reply alphabets, scripts, expected traces
computed from the SPECIFICATION's reply sets / final packets (tools/spec.py), not from the code."""
import itertools
from . import layouts, spec

ACK = bytes([0x80, 0, 0])


class Seq:
    def __init__(self, L, s):
        S = {x["name"]: x for x in L["structs"]}
        E = {x["name"]: x for x in L["enums"]}
        self.name = s["name"]
        self.short = s["name"].split("::")[-1]
        self.input = S[s["input"]]
        self.enum = E[s["output"]]
        self.variants = [(vn, S[t]) for vn, t in self.enum["variants"]]
        x = spec.exchanges().get(self.short)
        self.spec = x
        self.spec_final = {cf for cf, fin in x["replies"] if fin} if x else set()
        self.spec_set = {cf for cf, _ in x["replies"]} if x else set()

    def gen_input(self, rng):
        v, b = layouts.gen_struct_value(rng, self.input)
        return b

    def gen_reply(self, rng, k):
        """(frame bytes, item text) for variant k"""
        vn, st = self.variants[k]
        for _ in range(20):
            v, b = layouts.gen_struct_value(rng, st)
            if len(b) < 3000:
                return b, "%d%s" % (k, layouts.show(v))
        return b, "%d%s" % (k, layouts.show(v))

    def is_final(self, k):
        return tuple(self.variants[k][1]["control"]) in self.spec_final


def expected_trace(cmd, ack_frame, items, fault=None, rest=b""):
    """items: [(frame, text)] all acknowledged and yielded; fault: None | ("frame", bytes) | ("trunc", bytes)
    | ("eof",) ; returns the canonical log text of harness/src/bin/seq.rs"""
    ev = ["W:" + cmd.hex()]
    pending_r = ack_frame.hex()
    for frame, text in items:
        pending_r += frame.hex()
        ev.append("R:" + pending_r)
        pending_r = ""
        ev.append("W:" + ACK.hex())
        ev.append("Y:" + text)
    left = len(rest)
    if fault is not None:
        if fault[0] == "frame":
            pending_r += fault[1].hex()
        elif fault[0] == "trunc":
            pending_r += fault[1].hex() + rest.hex()      # a failed read_exact drains what is left
            left = 0
        if pending_r:
            ev.append("R:" + pending_r)
        ev.append("Y:Err")
    elif pending_r:
        ev.append("R:" + pending_r)
    return " ".join(ev) + " left=%d" % left


def all_scripts(n_variants, depth):
    for d in range(1, depth + 1):
        for t in itertools.product(range(n_variants), repeat=d):
            yield t
