"""Scenario builder for the client-level checks (C07 C08 C09 C10 C18 C19 C20): a simulated terminal
(what the client will read, per connection, with delays) together with what the SPECIFICATION of the
client says must happen: expected results, expected requests (byte exact, assembled by the reference
encoder from the specification layouts), expected connection use."""
from . import layouts, spec

ACK = bytes([0x80, 0, 0])
SERIAL = "17FD1E3C"


def bcd(n, nbytes):
    return bytes.fromhex(str(n).rjust(2 * nbytes, "0"))


class Spec:
    """request / reply encoders over the specification layouts"""

    def __init__(self):
        self.SP = spec.layouts()

    def enc(self, name, pos, tagged):
        sp = self.SP[name]
        vals = []
        pi = 0
        for f in sp["fields"]:
            if f["tag"] is None:
                vals.append(pos[pi]); pi += 1
            else:
                v = tagged.get(f["tag"])
                if f["ty"]["k"] == "opt":
                    vals.append(None if v is None else ("some", v))
                elif f["ty"]["k"] == "vec":
                    vals.append(v or [])
                else:
                    vals.append(v)
        return layouts.enc_struct(sp, ("rec", vals))

    # ---- what the client sends
    def registration(self, pw, cur):
        return self.enc("zvt::packets::Registration", [pw, 0xDE, ("some", cur)], {})

    def sysinfo_req(self):
        return self.enc("zvt::feig::packets::CVendFunctions", [None, 1], {})

    def set_terminal_id(self, pw, tid):
        return self.enc("zvt::packets::SetTerminalId", [pw], {0x29: tid})

    def initialization(self, pw):
        return self.enc("zvt::packets::Initialization", [pw], {})

    def end_of_day(self, pw):
        return self.enc("zvt::packets::EndOfDay", [pw], {})

    def pending_query(self):
        return self.enc("zvt::packets::PartialReversal", [], {0x87: 0xFFFF})

    def preauth_reversal(self, cur, receipt):
        return self.enc("zvt::packets::PreAuthReversal", [], {0x19: 0x40, 0x49: cur, 0x87: receipt})

    def bmp60(self, token):
        return ("rec", [("some", ("rec", [("s", [ord(c) for c in "AC"]), ("s", [ord(c) for c in token])]))])

    def reservation(self, cur, amount, token):
        return self.enc("zvt::packets::Reservation", [], {0x49: cur, 0x04: amount, 0x19: 0x40, 0x06: self.bmp60(token)})

    def partial_reversal(self, receipt, cur, amount, token):
        return self.enc("zvt::packets::PartialReversal", [], {0x87: receipt, 0x49: cur, 0x04: amount, 0x19: 0x40, 0x06: self.bmp60(token)})

    def read_card_req(self, t):
        tlv = ("rec", [("some", 0xd0), ("some", 0x07)])
        return self.enc("zvt::packets::ReadCard", [t], {0x19: 0x10, 0xFC: 0x02, 0x06: tlv})

    # ---- what the terminal sends
    def completion(self):
        return bytes([6, 0x0f, 0])

    def abort(self, code):
        return bytes([6, 0x1e, 1, code])

    def pr_abort(self, code, receipt=None):
        body = bytes([code]) + (b"" if receipt is None else bytes([0x87]) + (b"\xff\xff" if receipt == 0xFFFF else bcd(receipt, 2)))
        return bytes([6, 0x1e, len(body)]) + body

    def intermediate(self, status=0x17):
        return bytes([4, 0xff, 1, status])

    def print_line(self, text=b"hello"):
        return bytes([6, 0xd1, len(text) + 1, 0]) + text

    def print_text_block(self, lines=(b"hi", b"yo")):
        """06 D3: TLV container with the receipt type (1F07) and the text lines (25: 07* / 09)"""
        inner = b"".join(bytes([0x07, len(l)]) + l for l in lines) + bytes([0x09, 1, 1])
        tlv = bytes([0x1f, 0x07, 1, 1, 0x25, len(inner)]) + inner
        body = bytes([0x06, len(tlv)]) + tlv
        return bytes([6, 0xd3, len(body)]) + body

    def sysinfo(self, serial=SERIAL, tid="52523535", sw="GER-APP-v2.0.9   ", temp="24.4"):
        body = serial.encode() + sw.encode() + tid.encode() + temp.encode()
        return bytes([6, 0x0f, len(body)]) + body

    def status_info(self, fields):
        """fields: {bmp number: value}; 0x06 -> dict of tlv tags (uuid '4c' hex string, subs list of (card_type, app_id))"""
        body = b""
        for n, v in fields.items():
            if n == 0x87:
                body += bytes([0x87]) + bcd(v, 2)
            elif n == 0x04:
                body += bytes([0x04]) + bcd(v, 6)
            elif n == 0x0B:
                body += bytes([0x0B]) + bcd(v, 3)
            elif n == 0x0C:
                body += bytes([0x0C]) + bcd(v, 3)
            elif n == 0x0D:
                body += bytes([0x0D]) + bcd(v, 2)
            elif n == 0x29:
                body += bytes([0x29]) + bcd(v, 4)
            elif n == 0x27:
                body += bytes([0x27, v])
            elif n == 0x06:
                inner = b""
                if v.get("uuid") is not None:
                    u = bytes.fromhex(v["uuid"])
                    inner += bytes([0x4c, len(u)]) + u
                for (ct, app) in v.get("subs", []):
                    s = b""
                    if ct is not None:
                        s += bytes([0x41, len(ct)]) + ct
                    if app is not None:
                        s += bytes([0x43, len(app)]) + app
                    inner += bytes([0x60, len(s)]) + s
                if v.get("on_card") is not None:          # tag 0x62: the applications on the card, a container of 0x60 entries
                    oc = b""
                    for (ct, app) in v["on_card"]:
                        e = b""
                        if ct is not None:
                            e += bytes([0x41, len(ct)]) + ct
                        if app is not None:
                            e += bytes([0x43, len(app)]) + app
                        oc += bytes([0x60, len(e)]) + e
                    inner += bytes([0x62, len(oc)]) + oc
                body += bytes([0x06]) + layouts.len_prefix("LTlv", len(inner)) + inner
        return bytes([4, 0x0f]) + layouts.len_prefix("LAdpu", len(body)) + body


class Scenario:
    """one case line: config, ops, connection scripts; plus the expectations of the specification"""

    def __init__(self, S, cfg=None):
        self.S = S
        self.cfg = dict(serial=SERIAL, tid="52523535", cur=978, amount=2500, rct=15, pw=123456, max=1)
        if cfg:
            self.cfg.update(cfg)
        self.conns = [[]]          # list of chunk lists: (delay or None, bytes); a trailing "C"/"S" marker
        self.ends = ["S"]
        self.ops = []
        self.exp_results = []      # expected result text per op (None = not asserted)
        self.exp_writes = [[]]     # per connection: expected written packets in order (None entries = not asserted)
        self.notes = []

    # ---- low level
    def feed(self, *frames, delay=0):
        for f in frames:
            self.conns[-1].append((delay, f))

    def expect_write(self, b):
        self.exp_writes[-1].append(b)

    def new_conn(self, end_prev="S", refused=False, silent=False):
        """silent: the connection ATTEMPT is never answered (neither accepted nor refused)"""
        self.ends[-1] = end_prev
        self.conns.append("refused" if refused else "silent" if silent else [])
        self.ends.append("S")
        self.exp_writes.append([])

    def exchange(self, request, replies, delay=0):
        """a normal exchange on the current connection: the client writes request, reads ack, then for each reply reads it and writes ACK"""
        self.expect_write(request)
        self.feed(ACK, delay=delay)
        for r in replies:
            self.feed(r, delay=delay)
            self.expect_write(ACK)

    def handshake(self, serial=None):
        c = self.cfg
        self.exchange(self.S.registration(c["pw"], c["cur"]), [self.S.completion()])
        self.exchange(self.S.sysinfo_req(), [self.S.sysinfo(serial or c["serial"], c["tid"])])

    def start(self):
        """connection 0: handshake, then Feig::new's configure(), cut short by an abort of its first exchange"""
        self.handshake()
        self.exchange(self.S.sysinfo_req(), [self.S.abort(0x6c)])
        return self

    def line(self):
        c = self.cfg
        cfg = "serial=%s;tid=%s;cur=%d;amount=%d;rct=%d;pw=%d;max=%d" % (c["serial"].encode().hex(), c["tid"], c["cur"], c["amount"], c["rct"], c["pw"], c["max"])
        conns = []
        for chunks, end in zip(self.conns, self.ends):
            if chunks in ("refused", "silent"):
                conns.append(chunks)
            else:
                conns.append(",".join(["%s:%s" % ("N" if d is None else d, b.hex()) for d, b in chunks] + [end]))
        return "client\t%s\t%s\t%s" % (cfg, ";".join(self.ops) or "-", "|".join(conns))


def parse_output(line):
    """-> (results [(text, t0, dt)], events [(kind, conn, t, hex)], T)"""
    parts = line.split(" || ")
    if len(parts) != 3:
        return None
    res = []
    for r in parts[0].split(";"):
        if r.startswith("new@"):
            res.append(("new", int(r[4:]), 0))
            continue
        body, _, tm = r.rpartition("@")
        if "+" in tm:
            t0, dt = tm.split("+")
            res.append((body, int(t0), int(dt)))
        else:
            res.append((r, 0, 0))
    ev = []
    for e in parts[1].split():
        k = e[0]
        if k == "X":
            ev.append(("X", None, int(e[2:]), ""))
        else:
            head, _, hx = e.partition(":")
            cid, _, t = head[1:].partition("@")
            ev.append((k, int(cid), int(t), hx))
    return res, ev, int(parts[2][2:])


def writes_by_conn(ev):
    out = {}
    for k, c, t, hx in ev:
        if k == "W":
            out.setdefault(c, []).append(hx)
    return out


# ------------------------------------------------------------------ histories as lists of exchanges (for fault / stall injection)

class Exchange:
    def __init__(self, op_index, request, replies, timeout_ms=60000):
        self.op, self.request, self.replies, self.timeout = op_index, request, replies, timeout_ms


class History:
    """ops with a fault-free terminal plan; `build` lays them out over connections, optionally with one
    injected fault: (exchange index, position, kind) — position 0 = the acknowledgement, k>0 = reply k"""

    def __init__(self, S, cfg=None):
        self.S = S
        self.cfg = dict(serial=SERIAL, tid="52523535", cur=978, amount=2500, rct=15, pw=123456, max=2)
        if cfg:
            self.cfg.update(cfg)
        self.ops, self.exchanges, self.exp_results = [], [], []

    def ex(self, request, replies, timeout_ms=60000):
        self.exchanges.append(Exchange(len(self.ops) - 1, request, replies, timeout_ms))

    def idle_cleanup(self, pending=None, eod="completion"):
        S, c = self.S, self.cfg
        # progress reports and print-outs may precede every final answer (they are logged and skipped)
        self.ex(S.pending_query(), [S.print_text_block(), S.pr_abort(0xb8, 0xFFFF if pending is None else pending)])
        if pending is not None:
            self.ex(S.preauth_reversal(c["cur"], pending), [S.print_line(), S.completion()])
        self.ex(S.end_of_day(c["pw"]), [S.print_text_block(), S.completion()] if eod == "completion" else [S.pr_abort(eod)])

    def read_card(self, uuid="04a1b2c3d4e5f6", expect=None):
        S, c = self.S, self.cfg
        self.ops.append("read_card")
        self.ex(S.read_card_req(c["rct"]), [S.intermediate(), S.status_info({0x27: 0, 0x06: {"uuid": uuid}})], (c["rct"] + 2) * 1000)
        self.exp_results.append(expect or "Ok:Member:" + canon_uid(uuid))

    def begin(self, tok, receipt):
        S, c = self.S, self.cfg
        self.ops.append("begin:" + tok.encode().hex())
        self.ex(S.reservation(c["cur"], c["amount"], tok), [S.intermediate(), S.status_info({0x27: 0, 0x87: receipt}), S.completion()])
        self.exp_results.append("Ok")

    def commit(self, tok, receipt, final, idle=True):
        S, c = self.S, self.cfg
        self.ops.append("commit:%s:%d" % (tok.encode().hex(), final))
        self.ex(S.partial_reversal(receipt, c["cur"], c["amount"] - min(c["amount"], final), tok),
                [S.print_line(), S.status_info({0x27: 0, 0x04: 1234, 0x0B: 77, 0x0C: 93001, 0x0D: 517, 0x29: 52523535}), S.print_text_block(), S.completion()])
        if idle:
            self.idle_cleanup()
        self.exp_results.append("Ok:tid=52523535,amount=1234,trace=77,date=0517,time=093001")

    def cancel(self, tok, receipt, idle=True):
        S, c = self.S, self.cfg
        self.ops.append("cancel:" + tok.encode().hex())
        self.ex(S.preauth_reversal(c["cur"], receipt), [S.completion()])
        if idle:
            self.idle_cleanup()
        self.exp_results.append("Ok")

    def configure(self):
        S, c = self.S, self.cfg
        self.ops.append("configure")
        self.ex(S.sysinfo_req(), [S.sysinfo(c["serial"], "00000001")])
        self.ex(S.set_terminal_id(c["pw"], int(c["tid"])), [S.completion()])
        self.ex(S.initialization(c["pw"]), [S.intermediate(), S.print_line(), S.print_text_block(), S.completion()])
        self.idle_cleanup()
        self.exp_results.append("Ok")

    def build(self, fault=None, reconnect_serial=None):
        sc = Scenario(self.S, self.cfg).start()
        sc.ops = list(self.ops)
        sc.exp_results = list(self.exp_results)
        sc.fault_conn = None
        j = 0
        while j < len(self.exchanges):
            e = self.exchanges[j]
            if fault is not None and fault[0] == j:
                _, pos, kind = fault
                fault = None
                # deliver what precedes the fault position, then the fault
                sc.expect_write(e.request)
                if pos > 0:
                    sc.feed(ACK)
                    for r in e.replies[:pos - 1]:
                        sc.feed(r); sc.expect_write(ACK)
                sc.fault_conn = len(sc.conns) - 1
                if kind == "close":
                    sc.new_conn(end_prev="C")
                elif kind == "silence":
                    sc.new_conn(end_prev="S")
                elif kind == "garbage":
                    sc.feed(bytes([0x77, 0x01, 0x02, 0xaa, 0xbb])); sc.new_conn(end_prev="S")
                elif kind == "nack":
                    sc.feed(bytes([0x84, 0x9c, 0x00])); sc.new_conn(end_prev="S")
                elif kind == "truncated":
                    sc.feed(bytes([0x04, 0x0f, 0x20, 0x27])); sc.new_conn(end_prev="C")
                sc.handshake(reconnect_serial)
                if reconnect_serial is not None and reconnect_serial.lower() != self.cfg["serial"].lower():
                    # wrong terminal: the client must not use this connection; it reconnects once more
                    sc.wrong_serial_conn = len(sc.conns) - 1
                    sc.new_conn(end_prev="S")
                    sc.handshake()
                continue      # the exchange is retried from scratch on the new connection
            sc.exchange(e.request, e.replies)
            j += 1
        return sc


    # ---- several faults in one history, including faults inside the handshake of a reconnect
    FAULT_KINDS = ("close", "silence", "garbage", "nack", "truncated")

    @staticmethod
    def _inject(sc, request, replies, pos, kind):
        """deliver what precedes position pos of this exchange, then the fault; ends on a NEW connection"""
        sc.expect_write(request)
        if pos > 0:
            sc.feed(ACK)
            for r in replies[:pos - 1]:
                sc.feed(r); sc.expect_write(ACK)
        if kind == "close":
            sc.new_conn(end_prev="C")
        elif kind == "silence":
            sc.new_conn(end_prev="S")
        elif kind == "garbage":
            sc.feed(bytes([0x77, 0x01, 0x02, 0xaa, 0xbb])); sc.new_conn(end_prev="S")
        elif kind == "nack":
            sc.feed(bytes([0x84, 0x9c, 0x00])); sc.new_conn(end_prev="S")
        elif kind == "truncated":
            sc.feed(bytes([0x04, 0x0f, 0x20, 0x27])); sc.new_conn(end_prev="C")
        elif kind.startswith("late:"):
            # the packet at this position arrives d ms after the previous one (d around the timeout), nothing after it
            pkt = ACK if pos == 0 else replies[pos - 1]
            sc.feed(pkt, delay=int(kind[5:])); sc.new_conn(end_prev="S")
        else:
            raise ValueError(kind)

    def _handshake(self, sc, hsq):
        S, c = self.S, self.cfg
        reg = (S.registration(c["pw"], c["cur"]), [S.completion()])
        si = (S.sysinfo_req(), [S.sysinfo(c["serial"], c["tid"])])
        while True:
            f = hsq.pop(0) if hsq else None
            if f is None:
                sc.handshake()
                return
            stage, pos, kind = f
            if stage == 0:
                self._inject(sc, reg[0], reg[1], pos, kind)
            else:
                sc.exchange(*reg)
                self._inject(sc, si[0], si[1], pos, kind)

    def build_multi(self, faults, hs_faults=()):
        """faults: list of (exchange index, position, kind), applied in order (several may hit the same exchange:
        each retry of it consumes the next one); hs_faults: list of None | (stage 0/1, position 0/1, kind), one
        entry consumed by each reconnect handshake attempt"""
        sc = Scenario(self.S, self.cfg).start()
        sc.ops = list(self.ops)
        sc.exp_results = list(self.exp_results)
        pending = {}
        for j, pos, kind in faults:
            pending.setdefault(j, []).append((pos, kind))
        hsq = list(hs_faults)
        j = 0
        while j < len(self.exchanges):
            e = self.exchanges[j]
            if pending.get(j):
                pos, kind = pending[j].pop(0)
                pos = min(pos, len(e.replies))
                if kind == "nack":
                    pos = 0
                self._inject(sc, e.request, e.replies, pos, kind)
                self._handshake(sc, hsq)
                continue
            sc.exchange(e.request, e.replies)
            j += 1
        return sc


def canon_uid(hex_uid):
    u = hex_uid.upper()
    if len(u) > 14:
        u = u[-14:]
        if u.startswith("000000"):
            u = u[6:]
    return u
