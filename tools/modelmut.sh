#!/bin/bash
# model-side mutants: each must be rejected (proof obligation or correspondence)
cd /verif
run() { # file, sed expr, check
  f=$1; e=$2; p=$3
  cp coq/$f .cache/modelmut_orig.v
  sed -i "$e" coq/$f
  if cmp -s coq/$f .cache/modelmut_orig.v; then echo "$f [$e]: sed did not change anything"; return; fi
  out=$(./check $p quick 2>&1 | tail -2)
  echo "$f [$e] -> $p: $(echo "$out" | tail -1 | cut -c1-110)"
  cp .cache/modelmut_orig.v coq/$f
}
rm -rf .cache/evidence.bak; cp -r evidence .cache/evidence.bak
run Length.v 's/if len <=? 127 then Ok \[len\]/if len <=? 128 then Ok [len]/' C16
run Encoding.v 's/if (b0 =? 31) || (b0 =? 255) then/if (b0 =? 30) || (b0 =? 255) then/' C17
run Codec.v 's/| Ok (v, r) => if blen r =? blen bs then Ok (VList (rev acc), bs)/| Ok (v, r) => if false then Ok (VList (rev acc), bs)/' C02
run Client.v 's/Definition THROTTLE : N := 2000./Definition THROTTLE : N := 2001./' C10
run Sequence.v 's/let here := evs ++ \[EvW ACK; EvY i v\] in/let here := evs ++ [EvY i v; EvW ACK] in/' C05
run Transport.v 's/if b2 =? 255 then/if b2 =? 254 then/' C04
run Client.v 's/if cs_silent s then CErr 3 (at_time (logw w (ERefused (w_now w))) deadline) else/if cs_silent s then CErr 3 (logw w (ERefused (w_now w))) else/' C10
run Client.v 's/| RErr EUnexpectedPacket => (r, drop_cur w.)/| RErr EUnexpectedPacket => (r, w\x27)/' C09
rm -rf evidence; mv .cache/evidence.bak evidence
(cd coq && make >/dev/null 2>&1)
git status --short | head
