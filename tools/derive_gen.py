"""derive_gen — random struct definitions over the attribute grammar of #[derive(Zvt)] (C12):
written once as Rust (compiled with the REAL macro) and once as layout tables (the translator is run
over the generated Rust and must reproduce the generator's tables: a test of the translator)."""
import json
import os
from . import vlib

INTS = ["u8", "u16", "u32", "u64", "usize"]
W = {"u8": 1, "u16": 2, "u32": 4, "u64": 8, "usize": 8}


def rust_len(ls):
    if ls == "LEmpty":
        return None
    if ls == "LTlv":
        return "length::Tlv"
    if ls.startswith("LFixed"):
        return "length::Fixed<%s>" % ls.split()[1]
    d = int(ls.split()[1])
    return {2: "length::Llv", 3: "length::Lllv"}.get(d, "length::LlvImpl<%d>" % d)


_SPELL = [0]


def _spell(inner):
    _SPELL[0] += 1
    return (_SPELL[0] * 7 + len(inner)) % 3


def rust_ty(t):
    k = t["k"]
    if k == "prim":
        return t["p"]
    # every spelling a user may write: the macro has to recognise Option / Vec by the LAST path segment
    if k == "opt":
        inner = rust_ty(t["t"])
        return ("Option<%s>", "std::option::Option<%s>", "::core::option::Option<%s>")[_spell(inner)] % inner
    if k == "vec":
        inner = rust_ty(t["t"])
        return ("Vec<%s>", "std::vec::Vec<%s>", "::std::vec::Vec<%s>")[_spell(inner)] % inner
    return t["name"].split("::")[-1]


class Gen:
    def __init__(self, rng, crate="derive_gen"):
        self.rng, self.crate = rng, crate
        self.structs = []            # json dicts (+ "sd": bool, "has_tagged": bool, "depth": int)

    # ---- scalar field descriptors: (length, encoding, type json, sd)
    def scalar(self, tagged, allow_greedy=False):
        r = self.rng
        kind = r.choice(["int", "int", "bcd", "str", "str", "hex"] + (["utf8"] if r.random() < 0.3 else []))
        if kind == "int":
            p = r.choice(INTS)
            ls = r.choice(["LEmpty", "LFixed %d" % W[p], "LTlv", "LLlv 2"])
            return ls, r.choice(["Default", "BigEndian"]), {"k": "prim", "p": p}, True
        if kind == "bcd":
            p = r.choice(INTS)
            ls = r.choice(["LFixed %d" % r.randrange(1, 8), "LLlv 2", "LLlv 3", "LTlv", "LLlv 1"])
            if allow_greedy and r.random() < 0.3:
                return "LEmpty", "Bcd", {"k": "prim", "p": p}, False
            return ls, "Bcd", {"k": "prim", "p": p}, True
        if kind == "str":
            ls = r.choice(["LFixed %d" % r.randrange(1, 18), "LLlv 2", "LLlv 3", "LTlv", "LLlv 1", "LLlv 4"])
            if allow_greedy and r.random() < 0.3:
                return "LEmpty", "Default", {"k": "prim", "p": "String"}, False
            return ls, "Default", {"k": "prim", "p": "String"}, True
        if kind == "hex":
            return r.choice(["LLlv 2", "LLlv 3", "LTlv"]), "Hex", {"k": "prim", "p": "String"}, True
        return r.choice(["LLlv 3", "LTlv"]), "Utf8", {"k": "prim", "p": "String"}, True

    def nested(self, depth):
        cands = [s for s in self.structs if s["depth"] < depth and s["control"] is None]
        return self.rng.choice(cands) if cands else None

    def tag(self, used):
        r = self.rng
        for _ in range(100):
            t = r.choice([r.randrange(1, 255), r.randrange(1, 255), 0x1f00 + r.randrange(256), 0xff00 + r.randrange(256)])
            if t not in used and t not in (0x1f, 0xff):
                used.add(t)
                return t
        raise RuntimeError("tags")

    def struct(self, depth, wf=True):
        r = self.rng
        name = "%s::S%d" % (self.crate, len(self.structs))
        fields, used = [], set()
        n_pos = r.choice([0, 0, 1, 2, 3])
        n_tag = r.choice([0, 1, 2, 3, 4, 5])
        if n_pos + n_tag == 0:
            n_tag = 1
        if n_pos + n_tag > 8:
            n_tag = 8 - n_pos
        all_sd = True
        for i in range(n_pos):
            last_pos = i == n_pos - 1
            greedy_ok = last_pos and n_tag == 0
            sub = self.nested(depth) if depth > 0 and r.random() < 0.3 else None
            if sub is not None:
                if sub["has_tagged"] or not sub["sd"]:
                    ls = r.choice(["LTlv", "LLlv 3", "LLlv 2"])
                else:
                    ls = r.choice(["LEmpty", "LTlv", "LLlv 3"])
                enc, ty, sd = "Default", {"k": "struct", "name": sub["name"], "fields": sub["fields"]}, True
            else:
                ls, enc, ty, sd = self.scalar(False, allow_greedy=greedy_ok)
            if last_pos and n_tag == 0 and r.random() < 0.25 and sd and ls != "LEmpty":
                ty = {"k": "vec", "t": ty}             # a positional Vec with an explicit per-element length: last field only
                sd = False
            elif last_pos and ls.startswith("LFixed") and r.random() < 0.2:
                ty = {"k": "opt", "t": ty}
            all_sd = all_sd and sd
            fields.append({"name": "f%d" % len(fields), "tag": None, "length": ls, "encoding": enc, "ty": ty})
        for i in range(n_tag):
            sub = self.nested(depth) if depth > 0 and r.random() < 0.3 else None
            if sub is not None:
                if sub["has_tagged"] or not sub["sd"]:
                    ls = r.choice(["LTlv", "LLlv 3", "LTlv"])
                else:
                    ls = r.choice(["LEmpty", "LTlv", "LLlv 3"])
                enc, ty = "Default", {"k": "struct", "name": sub["name"], "fields": sub["fields"]}
            else:
                ls, enc, ty, _ = self.scalar(True)
            wrap = r.choice(["", "", "opt", "opt", "vec"])
            if wrap == "opt":
                ty = {"k": "opt", "t": ty}
            elif wrap == "vec":
                ty = {"k": "vec", "t": ty}
            use_tlv_attr = ls == "LTlv" and r.random() < 0.6
            fields.append({"name": "f%d" % len(fields), "tag": self.tag(used), "length": ls, "encoding": enc, "ty": ty,
                           "tlv_attr": use_tlv_attr})
        if not wf:
            self.break_wf(fields, used)
        control = [r.randrange(256), r.randrange(256)] if depth == 0 and r.random() < 0.5 or depth >= 2 and r.random() < 0.3 else None
        s = {"name": name, "control": control, "debug": True, "fields": fields, "depth": depth,
             "sd": all_sd and n_tag == 0, "has_tagged": n_tag > 0, "wf": wf}
        self.structs.append(s)
        return s

    def break_wf(self, fields, used):
        """deliberately outside the well-formed class: only model == implementation is compared there"""
        r = self.rng
        m = r.randrange(5)
        if m == 0 and len(fields) >= 2:
            r.shuffle(fields)                                     # tagged before positional
        elif m == 1:
            fields.insert(0, {"name": "g%d" % len(fields), "tag": None, "length": "LEmpty", "encoding": "Default",
                              "ty": {"k": "prim", "p": "String"}})   # greedy field first
        elif m == 2:
            fields.append({"name": "g%d" % len(fields), "tag": None, "length": "LEmpty", "encoding": "Default",
                           "ty": {"k": "vec", "t": {"k": "opt", "t": {"k": "prim", "p": "u8"}}}})
        elif m == 3:
            tagged = [f for f in fields if f["tag"] is not None]
            if len(tagged) >= 2:
                tagged[1]["tag"] = tagged[0]["tag"]                # duplicate number
        else:
            fields.append({"name": "g%d" % len(fields), "tag": None, "length": "LEmpty", "encoding": "Default",
                           "ty": {"k": "vec", "t": {"k": "prim", "p": "String"}}})
        for i, f in enumerate(fields):
            f["name"] = "f%d" % i

    # ---- Rust source
    def rust(self):
        out = ["// GENERATED by tools/derive_gen.py: random structs compiled with the real derive macro.",
               "#![allow(dead_code, clippy::all)]", "use zvt::{encoding, length, Zvt};", ""]
        for s in self.structs:
            out.append("#[derive(Debug, Default, PartialEq, Zvt)]")
            if s["control"]:
                out.append("#[zvt_control_field(class = 0x%02x, instr = 0x%02x)]" % tuple(s["control"]))
            out.append("pub struct %s {" % s["name"].split("::")[-1])
            for f in s["fields"]:
                enc = None if f["encoding"] == "Default" else "encoding::%s" % f["encoding"]
                ln = rust_len(f["length"])
                if f["tag"] is not None and f.get("tlv_attr"):
                    parts = ["tag = 0x%x" % f["tag"]] + (["encoding = %s" % enc] if enc else [])
                    if enc and self.rng.random() < 0.5:
                        parts.reverse()
                    out.append("    #[zvt_tlv(%s)]" % ", ".join(parts))
                else:
                    parts = (["number = 0x%x" % f["tag"]] if f["tag"] is not None else []) + \
                            (["length = %s" % ln] if ln else []) + (["encoding = %s" % enc] if enc else [])
                    if parts:
                        out.append("    #[zvt_bmp(%s)]" % ", ".join(parts))
                out.append("    pub %s: %s," % (f["name"], rust_ty(f["ty"])))
            out.append("}\n")
        out.append("pub fn dispatch(name: &str, bs: &[u8]) -> Option<String> {\n    Some(match name {")
        for s in self.structs:
            out.append("        \"%s\" => zvt_verif_harness::run_struct_plain::<%s>(bs)," % (s["name"], s["name"].split("::")[-1]))
        out.append("        _ => return None,\n    })\n}")
        return "\n".join(out) + "\n"


CARGO = """[package]
name = "derive_gen"
version = "0.0.0"
edition = "2021"
publish = false

[workspace]

[dependencies]
zvt = { path = "/repo/zvt" }
zvt_builder = { path = "/repo/zvt_builder" }
zvt_derive = { path = "/repo/zvt_derive" }
zvt_verif_harness = { path = "/verif/harness" }
log = "0.4"

[profile.dev]
debug = 0
opt-level = 0
overflow-checks = true
"""

MAIN = """use zvt_verif_harness::*;
fn main() {
    silence_panics();
    start_watchdog(10);
    run_cases(|f, emit| match f[0] {
        "dec" => emit(derive_gen::dispatch(f[1], &unhex(f[2])).unwrap_or_else(|| "NoSuchType".to_string())),
        other => panic!("unknown case kind {other}"),
    });
}
"""


def build(gen, tag="a"):
    """writes the crate, compiles it with the real macro, runs the translator over the generated source;
    returns (binary, translated layouts json)"""
    root = os.path.join(vlib.CACHE, "derive_gen_" + tag)
    os.makedirs(os.path.join(root, "src"), exist_ok=True)
    os.makedirs(os.path.join(root, ".cargo"), exist_ok=True)
    open(os.path.join(root, "Cargo.toml"), "w").write(CARGO)
    open(os.path.join(root, ".cargo", "config.toml"), "w").write("[net]\noffline = true\n[build]\ntarget-dir = \"%s\"\n" % vlib.TARGET)
    open(os.path.join(root, "src", "lib.rs"), "w").write(gen.rust())
    open(os.path.join(root, "src", "main.rs"), "w").write(MAIN)
    vlib.sh(["cp", os.path.join(vlib.REPO, "Cargo.lock"), os.path.join(root, "Cargo.lock")], check=True)
    rc, out = vlib.sh(["cargo", "build", "--offline", "--quiet"], cwd=root, timeout=3000)
    if rc != 0:
        return None, out
    tr = os.path.join(vlib.TARGET, "release", "zvt2coq")
    outj = os.path.join(root, "layouts.json")
    vlib.sh([tr, "--scan", "derive_gen", os.path.join(root, "src"), outj], check=True)
    return os.path.join(vlib.TARGET, "debug", "derive_gen"), json.load(open(outj))


def layout_tokens(fields):
    def ls(x):
        return x[1:].replace(" ", ":")                       # "LFixed 3" -> "Fixed:3"

    def enc(e):
        return {"PartialReversalReceiptNo": "ReceiptNo"}.get(e, e)

    def ty(t):
        k = t["k"]
        if k == "prim":
            return "P " + t["p"]
        if k == "opt":
            return "O " + ty(t["t"])
        if k == "vec":
            return "V " + ty(t["t"])
        return "S " + fs(t["fields"])

    def fs(l):
        return "[ " + " ".join("F %s %s %s %s" % ("-" if f["tag"] is None else f["tag"], ls(f["length"]), enc(f["encoding"]), ty(f["ty"])) for f in l) + " ]"
    return fs(fields)
