"""./check --setup : builds translator, Coq development, extracted model + driver, harness binaries."""
import os
import time
from . import vlib


def main():
    t0 = time.time()
    os.makedirs(vlib.CACHE, exist_ok=True)
    ok, log = vlib.translator_run()
    print("translator:", "ok" if ok else "FAILED\n" + log[-2000:])
    ok, log = vlib.coq_build()
    print("coq build:", "ok" if ok else "FAILED\n" + log[-3000:])
    vlib.ocaml_build()
    print("ocaml driver: ok")
    for crate, bins in HARNESS.items():
        if os.path.exists(os.path.join(vlib.VERIF, crate, "Cargo.toml")):
            vlib.harness_build(crate, bins, release=False)
            if crate == "harness":
                vlib.harness_build(crate, bins, release=True)
            print("harness %s: ok" % crate)
    print("setup done in %.0fs" % (time.time() - t0))
    return 0 if ok else 2


HARNESS = {"harness": ["prim", "codec", "transport", "seq"], "harness_client": ["zvt_verif_harness_client"]}
